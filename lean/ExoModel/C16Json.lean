/-
  ExoModel.C16Json — JSON codec and request dispatcher of the C16 line driver (Drivers/C16.lean).
  Kept in the library so that it is compiled once by `lake build`; no theorem depends on it.
  Protocol: see Drivers/C16.lean.
-/
import Lean.Data.Json
import ExoModel.Pattern
import ExoModel.Nav
open Lean Exo.Pattern Exo.Nav

namespace Exo.C16Json

abbrev P := Except String

def arr (j : Json) : P (Array Json) := j.getArr?
def str (j : Json) : P String := j.getStr?
def intOf (j : Json) : P Int := j.getInt?
def natOf (j : Json) : P Nat := j.getNat?
def optInt (j : Json) : P (Option Int) := if j.isNull then pure none else some <$> j.getInt?

def intStr (j : Json) : P Int := do
  let s ← j.getStr?
  match s.toInt? with
  | some i => pure i
  | none => throw s!"bad int {s}"

def at' (a : Array Json) (i : Nat) : P Json :=
  match a[i]? with
  | some j => pure j
  | none => throw s!"missing field {i}"

mutual
  partial def pExpr (j : Json) : P Expr := do
    let a ← arr j
    let tag ← str (← at' a 0)
    match tag with
    | "read" => pure (.read (← str (← at' a 1)) (← (← arr (← at' a 2)).toList.mapM pExpr))
    | "const" => pure (.const ⟨← intStr (← at' a 1), (← intStr (← at' a 2)).toNat⟩)
    | "usub" => pure (.usub (← pExpr (← at' a 1)))
    | "binop" => pure (.binop (← str (← at' a 1)) (← pExpr (← at' a 2)) (← pExpr (← at' a 3)))
    | "extern" => pure (.extern (← str (← at' a 1)) (← (← arr (← at' a 2)).toList.mapM pExpr))
    | "win" => pure (.windowExpr (← str (← at' a 1)) (← (← arr (← at' a 2)).toList.mapM pWAcc))
    | "stride" => pure (.strideExpr (← str (← at' a 1)) (← intOf (← at' a 2)))
    | "rc" => pure (.readConfig (← str (← at' a 1)) (← str (← at' a 2)))
    | t => throw s!"bad expr tag {t}"
  partial def pWAcc (j : Json) : P WAcc := do
    let a ← arr j
    let tag ← str (← at' a 0)
    match tag with
    | "iv" => pure (.interval (← pExpr (← at' a 1)) (← pExpr (← at' a 2)))
    | "pt" => pure (.point (← pExpr (← at' a 1)))
    | t => throw s!"bad w_access tag {t}"
end

partial def pStmt (j : Json) : P Stmt := do
  let a ← arr j
  let tag ← str (← at' a 0)
  let exprs (j : Json) : P (List Expr) := do (← arr j).toList.mapM pExpr
  let stmts (j : Json) : P (List Stmt) := do (← arr j).toList.mapM pStmt
  match tag with
  | "assign" => pure (.assign (← str (← at' a 1)) (← exprs (← at' a 2)) (← pExpr (← at' a 3)))
  | "reduce" => pure (.reduce (← str (← at' a 1)) (← exprs (← at' a 2)) (← pExpr (← at' a 3)))
  | "wc" => pure (.writeConfig (← str (← at' a 1)) (← str (← at' a 2)) (← pExpr (← at' a 3)))
  | "pass" => pure .pass
  | "if" => pure (.if_ (← pExpr (← at' a 1)) (← stmts (← at' a 2)) (← stmts (← at' a 3)))
  | "for" => pure (.for_ (← str (← at' a 1)) (← pExpr (← at' a 2)) (← pExpr (← at' a 3)) (← stmts (← at' a 4)))
  | "alloc" =>
    let h ← at' a 2
    if h.isNull then pure (.alloc (← str (← at' a 1)) none)
    else pure (.alloc (← str (← at' a 1)) (some (← exprs h)))
  | "call" => pure (.call (← str (← at' a 1)) (← exprs (← at' a 2)))
  | "ws" => pure (.windowStmt (← str (← at' a 1)) (← pExpr (← at' a 2)))
  | t => throw s!"bad stmt tag {t}"

partial def pPExpr (j : Json) : P PExpr := do
  let a ← arr j
  let tag ← str (← at' a 0)
  let pes (j : Json) : P (List PExpr) := do (← arr j).toList.mapM pPExpr
  match tag with
  | "read" => pure (.read (← str (← at' a 1)) (← pes (← at' a 2)))
  | "stride" => pure (.strideExpr (← str (← at' a 1)) (← optInt (← at' a 2)))
  | "hole" => pure .hole
  | "const" => pure (.const ⟨← intStr (← at' a 1), (← intStr (← at' a 2)).toNat⟩)
  | "usub" => pure (.usub (← pPExpr (← at' a 1)))
  | "binop" => pure (.binop (← str (← at' a 1)) (← pPExpr (← at' a 2)) (← pPExpr (← at' a 3)))
  | "extern" => pure (.extern (← str (← at' a 1)) (← pes (← at' a 2)))
  | "rc" => pure (.readConfig (← str (← at' a 1)) (← str (← at' a 2)))
  | t => throw s!"bad pattern expr tag {t}"

partial def pPStmt (j : Json) : P PStmt := do
  let a ← arr j
  let tag ← str (← at' a 0)
  let pes (j : Json) : P (List PExpr) := do (← arr j).toList.mapM pPExpr
  let pss (j : Json) : P (List PStmt) := do (← arr j).toList.mapM pPStmt
  match tag with
  | "assign" => pure (.assign (← str (← at' a 1)) (← pes (← at' a 2)) (← pPExpr (← at' a 3)))
  | "reduce" => pure (.reduce (← str (← at' a 1)) (← pes (← at' a 2)) (← pPExpr (← at' a 3)))
  | "pass" => pure .pass
  | "if" => pure (.if_ (← pPExpr (← at' a 1)) (← pss (← at' a 2)) (← pss (← at' a 3)))
  | "for" => pure (.for_ (← str (← at' a 1)) (← pPExpr (← at' a 2)) (← pPExpr (← at' a 3)) (← pss (← at' a 4)))
  | "alloc" => pure (.alloc (← str (← at' a 1)) (← pes (← at' a 2)))
  | "call" => pure (.call (← str (← at' a 1)) (← pes (← at' a 2)))
  | "wc" => pure (.writeConfig (← str (← at' a 1)) (← str (← at' a 2)))
  | "hole" => pure .hole
  | t => throw s!"bad pattern stmt tag {t}"

def pPat (j : Json) : P Pat := do
  let a ← arr j
  let tag ← str (← at' a 0)
  match tag with
  | "e" => pure (.expr (← pPExpr (← at' a 1)))
  | "s" => pure (.stmts (← (← arr (← at' a 1)).toList.mapM pPStmt))
  | t => throw s!"bad pattern tag {t}"

def jPath (p : Path) : Json :=
  .arr (p.toArray.map fun (a, i) => .arr #[.str a, match i with | some k => (k : Json) | none => .null])

def jCursor : Cursor → Json
  | .node p => .arr #[.str "N", jPath p]
  | .block a attr lo hi => .arr #[.str "B", jPath a, .str attr, (lo : Json), (hi : Json)]
  | .gap a .before => .arr #[.str "G", jPath a, .str "b"]
  | .gap a .after => .arr #[.str "G", jPath a, .str "a"]

def jRes : Except FindErr (List Cursor) → Json
  | .ok l => .arr (l.toArray.map jCursor)
  | .error .anything => .str "anything"
  | .error .noMatch => .str "noMatch"

def doFind (req : Json) : P Json := do
  let body ← (← arr (← req.getObjVal? "body")).toList.mapM pStmt
  let qs ← arr (← req.getObjVal? "qs")
  let outs ← qs.toList.mapM fun q => do
    let pat ← pPat (← q.getObjVal? "pat")
    let hj ← q.getObjVal? "hash"
    let hash ← if hj.isNull then pure none else some <$> natOf hj
    let many ← (← q.getObjVal? "many").getBool?
    pure (Json.mkObj [("all", jRes (findRaw body pat none)), ("api", jRes (apiFind body pat hash many))])
  pure (.arr outs.toArray)

def doSplit (req : Json) : P Json := do
  let s ← str (← req.getObjVal? "s")
  let (pat, no) := splitMatchNo s.toList
  pure (Json.mkObj [("pat", .str (String.ofList pat)),
                    ("no", match no with | some n => (n : Json) | none => .null),
                    ("loop", .str (String.ofList (expandLoop s.toList))),
                    ("alloc", .str (String.ofList (expandAlloc s.toList)))])

/-! ### navigation -/

partial def pTree (j : Json) : P NTree := do
  let a ← arr j
  let tag ← str (← at' a 0)
  let fs ← arr (← at' a 1)
  let fields ← fs.toList.mapM fun f => do
    let fa ← arr f
    let attr ← str (← at' fa 0)
    let isList ← (← at' fa 1).getBool?
    let kids ← (← arr (← at' fa 2)).toList.mapM pTree
    pure (attr, isList, kids)
  pure (.mk tag fields)

structure Env where
  tree : NTree
  paths : Array Path

def Env.path (e : Env) (j : Json) : P Path := do
  let k ← natOf j
  match e.paths[k]? with
  | some p => pure p
  | none => throw s!"bad node index {k}"

def Env.idx (e : Env) (p : Path) : String :=
  match e.paths.findIdx? (· == p) with
  | some k => s!"{k}"
  | none => "P" ++ (jPath p).compress

def showErr : Err → String
  | .invalidCursor => "E:InvalidCursorError"
  | .index => "E:IndexError"
  | .value => "E:ValueError"
  | .type => "E:TypeError"
  | .attribute => "E:AttributeError"
  | .assertion => "E:AssertionError"

def Env.showCursor (e : Env) : Cursor → String
  | .node p => "N" ++ e.idx p
  | .block a attr lo hi => s!"B{e.idx a}:{attr}:{lo}:{hi}"
  | .gap a .before => s!"G{e.idx a}:b"
  | .gap a .after => s!"G{e.idx a}:a"

def Env.showPath (e : Env) : R Path → String
  | .ok p => "N" ++ e.idx p
  | .error x => showErr x

def Env.showCur (e : Env) : R Cursor → String
  | .ok c => e.showCursor c
  | .error x => showErr x

def Env.showPub (e : Env) : R Pub → String
  | .ok (.cur c) => e.showCursor c
  | .ok .invalid => "INV"
  | .error x => showErr x

def showInt : R Int → String
  | .ok i => s!"I{i}"
  | .error x => showErr x

structure Blk where
  a : Path
  attr : String
  lo : Int
  hi : Int

def Env.blk (e : Env) (j : Json) : P Blk := do
  let a ← arr j
  pure ⟨← e.path (← at' a 0), ← str (← at' a 1), ← intOf (← at' a 2), ← intOf (← at' a 3)⟩

def Env.gap (e : Env) (j : Json) : P (Path × GapType) := do
  let a ← arr j
  let ty ← str (← at' a 1)
  pure (← e.path (← at' a 0), if ty == "b" then .before else .after)

def Env.cur (e : Env) (j : Json) : P Cursor := do
  let a ← arr j
  let k ← str (← at' a 0)
  match k with
  | "N" => pure (.node (← e.path (← at' a 1)))
  | "B" => pure (.block (← e.path (← at' a 1)) (← str (← at' a 2)) (← intOf (← at' a 3)) (← intOf (← at' a 4)))
  | "G" => pure (.gap (← e.path (← at' a 1)) (if (← str (← at' a 2)) == "b" then .before else .after))
  | t => throw s!"bad cursor kind {t}"

def Env.step (e : Env) (op : Json) : P String := do
  let a ← arr op
  let name ← str (← at' a 0)
  let t := e.tree
  match name with
  | "parent" => pure (e.showPath (parent (← e.path (← at' a 1))))
  | "child" => pure (e.showPath (childNode t (← e.path (← at' a 1)) (← str (← at' a 2)) (← optInt (← at' a 3))))
  | "cblock" => pure (e.showCur (childBlock t (← e.path (← at' a 1)) (← str (← at' a 2))))
  | "next" => pure (e.showPath (next t (← e.path (← at' a 1)) (← intOf (← at' a 2))))
  | "prev" => pure (e.showPath (prev t (← e.path (← at' a 1)) (← intOf (← at' a 2))))
  | "asblock" => pure (e.showCur (asBlock (← e.path (← at' a 1))))
  | "before" => pure (e.showCursor (before (← e.path (← at' a 1))))
  | "after" => pure (e.showCursor (after (← e.path (← at' a 1))))
  | "anc" => pure (if isAncestorOf (← e.path (← at' a 1)) (← e.path (← at' a 2)) then "T" else "F")
  | "pparent" => pure (e.showPub (pubParent t (← e.cur (← at' a 1))))
  | "pnext" => pure (e.showPub (pubNext t (← e.path (← at' a 1)) (← intOf (← at' a 2))))
  | "pprev" => pure (e.showPub (pubPrev t (← e.path (← at' a 1)) (← intOf (← at' a 2))))
  | "blen" => do let b ← e.blk (← at' a 1); pure s!"I{rangeLen b.lo b.hi}"
  | "bget" => do
    let b ← e.blk (← at' a 1)
    pure (e.showPath (blockGet t b.a b.attr b.lo b.hi (← intOf (← at' a 2))))
  | "bslice" => do
    let b ← e.blk (← at' a 1)
    pure (e.showCur (blockSlice b.a b.attr b.lo b.hi (← optInt (← at' a 2)) (← optInt (← at' a 3)) (← optInt (← at' a 4))))
  | "biter" => do
    let b ← e.blk (← at' a 1)
    pure ("L[" ++ ",".intercalate ((blockIter t b.a b.attr b.lo b.hi).map e.showPath) ++ "]")
  | "bexpand" => do
    let b ← e.blk (← at' a 1)
    pure (e.showCur (expand t b.a b.attr b.lo b.hi (← optInt (← at' a 2)) (← optInt (← at' a 3))))
  | "bbefore" => do let b ← e.blk (← at' a 1); pure (e.showCur (blockBefore t b.a b.attr b.lo b.hi))
  | "bafter" => do let b ← e.blk (← at' a 1); pure (e.showCur (blockAfter t b.a b.attr b.lo b.hi))
  | "bparent" => do let b ← e.blk (← at' a 1); pure (e.showPath (cursorParent (.block b.a b.attr b.lo b.hi)))
  | "pbget" => do
    let b ← e.blk (← at' a 1)
    pure (e.showPub (pubBlockGet t b.a b.attr b.lo b.hi (← intOf (← at' a 2))))
  | "pbslice" => do
    let b ← e.blk (← at' a 1)
    pure (e.showPub (pubBlockSlice t b.a b.attr b.lo b.hi (← optInt (← at' a 2)) (← optInt (← at' a 3)) (← optInt (← at' a 4))))
  | "pbexpand" => do
    let b ← e.blk (← at' a 1)
    pure (e.showPub (pubExpand t b.a b.attr b.lo b.hi (← optInt (← at' a 2)) (← optInt (← at' a 3))))
  | "pbanchor" => do let b ← e.blk (← at' a 1); pure (e.showPub (pubBlockAnchor t b.a))
  | "ganchor" => do let (p, ty) ← e.gap (← at' a 1); pure (e.showPath (gapAnchor (.gap p ty)))
  | "gparent" => do let (p, ty) ← e.gap (← at' a 1); pure (e.showPath (cursorParent (.gap p ty)))
  | "gindex" => do let (p, ty) ← e.gap (← at' a 1); pure (showInt (insertionIndex p ty))
  | n => throw s!"bad nav op {n}"

def doNav (req : Json) : P Json := do
  let tree ← pTree (← req.getObjVal? "tree")
  let e : Env := ⟨tree, (allPaths [] tree).toArray⟩
  let script ← arr (← req.getObjVal? "script")
  let outs ← script.toList.mapM e.step
  pure (.arr (outs.toArray.map Json.str))

def answer (line : String) : String :=
  match Json.parse line with
  | .error e => (Json.mkObj [("error", .str e)]).compress
  | .ok req =>
    let r : P Json := do
      let op ← str (← req.getObjVal? "op")
      match op with
      | "find" => doFind req
      | "split" => doSplit req
      | "nav" => doNav req
      | "npaths" => do
        let tree ← pTree (← req.getObjVal? "tree")
        pure (.arr ((allPaths [] tree).toArray.map jPath))
      | o => throw s!"bad op {o}"
    match r with
    | .ok j => j.compress
    | .error e => (Json.mkObj [("error", .str e)]).compress

partial def loop (stdin : IO.FS.Stream) (stdout : IO.FS.Stream) : IO Unit := do
  let line ← stdin.getLine
  if line.isEmpty then return
  let l := line.trimAscii.toString
  if !l.isEmpty then
    stdout.putStrLn (answer l)
    stdout.flush
  loop stdin stdout


end Exo.C16Json
