/-
  ExoModel.Print — literal executable model of the LoopIR pretty printer's two mechanisms that
  decide whether the printed text denotes the procedure (property C17):

  (a) `PrintEnv` (src/exo/core/LoopIR_pprint.py:356-376): two `ChainMap`s, `env : Sym ↦ str` and
      `names : str ↦ int`; `push()` adds a child map to both; `get_name` as written, including
      the quirk that the *generated* candidate `x_1` is never entered into `names` (finding F15)
      and the truthiness test `if resolved := self.env.get(nm)`.
      `getNameFixed` is the candidate repair (also skip candidates that are printed names in use).
  (b) `_print_expr` (:480-519) for `Read` (with indices), `Const`, `USub`, `BinOp` with the
      `op_prec` table (:37-57), both as text (`ppS`, the exact characters) and as tokens (`ppT`),
      a lexer for that text, and a parser for the token language that does what CPython's grammar
      followed by `pyparser.parse_expr` (src/exo/frontend/pyparser.py:1498-1690) does on it:
      precedence climbing, `-` as prefix operator on a `factor`, `-3` read as `USub(Const 3)`,
      comparison *chains* `a < b < c` read as `(a < b) and (b < c)`.

  Everything is a total function over lists; no Mathlib.
-/
import ExoModel.Syntax

namespace Exo.Print
open Exo

/-! ## (a) PrintEnv -/

/-- `f"{nm}_{num}"` -/
def candName (nm : String) (k : Nat) : String := nm ++ "_" ++ toString k

/-- one level of the two ChainMaps; association lists, newest entry first (a later write to the
    same key shadows the earlier one, as a dict overwrite does) -/
structure Frame where
  env : List (Sym × String) := []
  names : List (String × Nat) := []
deriving Repr, DecidableEq, Inhabited

/-- the chain, innermost map first.  `PrintEnv()` is `[{}]`. -/
abbrev PEnv := List Frame

def PEnv.init : PEnv := [{}]

/-- `ChainMap.get`: the first map of the chain that has the key decides -/
def envGet (E : PEnv) (s : Sym) : Option String := E.findSome? (fun f => f.env.lookup s)

def namesGet (E : PEnv) (k : String) : Option Nat := E.findSome? (fun f => f.names.lookup k)

/-- `candidate in self.names` -/
def namesHas (E : PEnv) (k : String) : Bool := (namesGet E k).isSome

/-- all live `(symbol, printed name)` entries / `names` entries, innermost first -/
def flatEnv (E : PEnv) : List (Sym × String) := E.flatMap (·.env)
def flatNames (E : PEnv) : List (String × Nat) := E.flatMap (·.names)

/-- `… in self.env.values()` (used by the repaired version only) -/
def valuesHas (E : PEnv) (r : String) : Bool := (flatEnv E).any (fun p => p.2 == r)

/-- the `while candidate in self.names: candidate = f"{nm}_{num}"; num += 1` loop once the first
    candidate (`str(nm)`) has been found taken: smallest `j ≥ num` whose candidate is free.
    `fuel` bounds the search (the loop terminates because `names` is finite; see
    `Lemmas/PrintName.findNum_free`). -/
def findNum (has : String → Bool) (nm : String) : Nat → Nat → Nat
  | 0, num => num
  | fuel + 1, num => if has (candName nm num) then findNum has nm fuel (num + 1) else num

/-- writes go to the first map of the chain -/
def writeFront (E : PEnv) (s : Sym) (r : String) (k : String) (n : Nat) : PEnv :=
  match E with
  | [] => [{ env := [(s, r)], names := [(k, n)] }]
  | f :: rest => { env := (s, r) :: f.env, names := (k, n) :: f.names } :: rest

/-- the part of `get_name` after the `resolved` test, parameterised by the membership test used
    in the `while` condition -/
def bindWith (has : String → Bool) (fuel : Nat) (E : PEnv) (s : Sym) : String × PEnv :=
  let cand0 := s.name                          -- candidate = str(nm)
  let num0 := (namesGet E cand0).getD 1        -- num = self.names.get(candidate, 1)
  if has cand0 then
    let j := findNum has s.name fuel num0
    -- candidate = f"{nm}_{j}", num = j + 1 when the loop exits
    (candName s.name j, writeFront E s (candName s.name j) s.name (j + 1))
  else
    (cand0, writeFront E s cand0 s.name num0)

/-- `PrintEnv.get_name` exactly as written -/
def getName (E : PEnv) (s : Sym) : String × PEnv :=
  match envGet E s with
  | some r => if r.isEmpty then bindWith (namesHas E) ((flatNames E).length + 1) E s else (r, E)
  | none => bindWith (namesHas E) ((flatNames E).length + 1) E s

/-- candidate repair: `while candidate in self.names or candidate in self.env.values()` -/
def getNameFixed (E : PEnv) (s : Sym) : String × PEnv :=
  let has := fun c => namesHas E c || valuesHas E c
  let fuel := (flatNames E).length + (flatEnv E).length + 1
  match envGet E s with
  | some r => if r.isEmpty then bindWith has fuel E s else (r, E)
  | none => bindWith has fuel E s

/-- what the printer does to the environment while it walks a procedure: `get s` (binder or use —
    the printer does not distinguish them), `push` on entering the body of a `for` / a branch of
    an `if`, `pop` when the walk returns to the parent `PrintEnv` object -/
inductive Op
  | get (s : Sym)
  | push
  | pop
deriving Repr, DecidableEq, Inhabited

/-- back to the parent `PrintEnv` (the root environment has no parent) -/
def popEnv : PEnv → PEnv
  | _ :: (g :: rest) => g :: rest
  | E => E

def stepWith (gn : PEnv → Sym → String × PEnv) (E : PEnv) : Op → PEnv × Option String
  | .get s => let (r, E') := gn E s; (E', some r)
  | .push => (({} : Frame) :: E, none)
  | .pop => (popEnv E, none)

def step := stepWith getName
def stepFixed := stepWith getNameFixed

def runWith (gn : PEnv → Sym → String × PEnv) : PEnv → List Op → PEnv × List String
  | E, [] => (E, [])
  | E, op :: ops =>
    let (E', o) := stepWith gn E op
    let (E'', out) := runWith gn E' ops
    (E'', match o with | some r => r :: out | none => out)

def run := runWith getName
def runFixed := runWith getNameFixed

/-- the property (a): no two distinct live symbols are shown with the same name -/
def Inj (E : PEnv) : Prop :=
  ∀ s₁ s₂ r, (s₁, r) ∈ flatEnv E → (s₂, r) ∈ flatEnv E → s₁ = s₂

/-- executable version of `Inj` (driver, `decide`) -/
def injB (E : PEnv) : Bool :=
  (flatEnv E).all fun p => (flatEnv E).all fun q => !(p.2 == q.2) || p.1 == q.1

/-- states visited by a run, for "at every moment" statements -/
def statesWith (gn : PEnv → Sym → String × PEnv) : PEnv → List Op → List PEnv
  | E, [] => [E]
  | E, op :: ops => E :: statesWith gn (stepWith gn E op).1 ops

/-! ## (b) expressions -/

/-- `op_prec` (LoopIR_pprint.py:37-57); the unary minus entry `"~"` is `precUSub` -/
def prec : BinOp → Nat
  | .or => 10
  | .and => 20
  | .lt | .gt | .le | .ge | .eq => 30
  | .add | .sub => 40
  | .mul | .div | .mod => 50

def precUSub : Nat := 60

def opStr : BinOp → String
  | .add => "+" | .sub => "-" | .mul => "*" | .div => "/" | .mod => "%"
  | .lt => "<" | .gt => ">" | .le => "<=" | .ge => ">=" | .eq => "=="
  | .and => "and" | .or => "or"

def allOps : List BinOp := [.or, .and, .lt, .gt, .le, .ge, .eq, .add, .sub, .mul, .div, .mod]

/-- the table in the order of the source dict, as compared with the regenerated
    `Gen/PrecTable.lean` -/
def precTable : List (String × Nat) := allOps.map (fun o => (opStr o, prec o)) ++ [("~", precUSub)]

def isCmp : BinOp → Bool
  | .lt | .gt | .le | .ge | .eq => true
  | _ => false

/-- printable expressions.  `var x idx` is a `Read` whose name has already been resolved by
    `get_name`; `const neg mag` is a `Const` whose `str(val)` is `"-" ++ mag` (`neg`) or `mag`. -/
inductive PExpr where
  | var (x : String) (idx : List PExpr)
  | const (neg : Bool) (mag : String)
  | neg (e : PExpr)
  | bin (op : BinOp) (l r : PExpr)
deriving Repr, Inhabited

/-- tokens of the printed text -/
inductive Tok
  | id (s : String)
  | num (s : String)      -- unsigned literal text, or `True` / `False`
  | op (o : BinOp)        -- `.op .sub` is also the prefix minus
  | lp | rp | lb | rb | comma
deriving Repr, DecidableEq, Inhabited

mutual
/-- `_print_expr(e, env, prec)` as a token list -/
def ppT : Nat → PExpr → List Tok
  | _, .var x [] => [.id x]
  | _, .var x (i :: is) => .id x :: .lb :: (ppT 0 i ++ (ppTailT is ++ [.rb]))
  | _, .const false m => [.num m]
  | _, .const true m => [.op .sub, .num m]
  | _, .neg e => .op .sub :: ppT precUSub e
  | p, .bin o l r =>
    if prec o < p then .lp :: (ppT (prec o) l ++ (.op o :: (ppT (prec o + 1) r ++ [.rp])))
    else ppT (prec o) l ++ (.op o :: ppT (prec o + 1) r)
/-- `", ".join(...)` after the first element -/
def ppTailT : List PExpr → List Tok
  | [] => []
  | e :: es => .comma :: (ppT 0 e ++ ppTailT es)
end

mutual
/-- `_print_expr(e, env, prec)`, the characters -/
def ppS : Nat → PExpr → String
  | _, .var x [] => x
  | _, .var x (i :: is) => x ++ "[" ++ ppS 0 i ++ ppTailS is ++ "]"
  | _, .const false m => m
  | _, .const true m => "-" ++ m
  | _, .neg e => "-" ++ ppS precUSub e
  | p, .bin o l r =>
    let s := ppS (prec o) l ++ " " ++ opStr o ++ " " ++ ppS (prec o + 1) r
    if prec o < p then "(" ++ s ++ ")" else s
def ppTailS : List PExpr → String
  | [] => ""
  | e :: es => ", " ++ ppS 0 e ++ ppTailS es
end

/- what reading the printed text back yields for a negative literal: Python has no negative
   literals, `-3` is `UnaryOp(USub, Constant(3))` and `parse_expr` maps it to `USub(Const(3))` -/
mutual
def norm : PExpr → PExpr
  | .var x idx => .var x (normL idx)
  | .const false m => .const false m
  | .const true m => .neg (.const false m)
  | .neg e => .neg (norm e)
  | .bin o l r => .bin o (norm l) (norm r)
def normL : List PExpr → List PExpr
  | [] => []
  | e :: es => norm e :: normL es
end

/-! ### parser: CPython grammar + `parse_expr` on the token language -/

mutual
/-- `parseExpr fuel m ts`: an expression all of whose unparenthesised binary operators have
    precedence ≥ `m` -/
def parseExpr : Nat → Nat → List Tok → Option (PExpr × List Tok)
  | 0, _, _ => none
  | f + 1, m, ts =>
    match parseUnary f ts with
    | none => none
    | some (a, r) => parseLoop f m a none r
/-- Python's `factor`: `'-' factor | atom trailer*` -/
def parseUnary : Nat → List Tok → Option (PExpr × List Tok)
  | 0, _ => none
  | f + 1, .op .sub :: ts =>
    match parseUnary f ts with
    | none => none
    | some (a, r) => some (.neg a, r)
  | f + 1, .lp :: ts =>
    match parseExpr f 0 ts with
    | some (a, .rp :: r) => some (a, r)
    | _ => none
  | _ + 1, .num s :: ts => some (.const false s, ts)
  | f + 1, .id x :: .lb :: ts =>
    match parseExpr f 0 ts with
    | none => none
    | some (a, r) =>
      match parseTail f r with
      | some (as, .rb :: r') => some (.var x (a :: as), r')
      | _ => none
  | _ + 1, .id x :: ts => some (.var x [], ts)
  | _ + 1, _ => none
/-- the remaining subscripts `, e`* -/
def parseTail : Nat → List Tok → Option (List PExpr × List Tok)
  | 0, _ => none
  | f + 1, .comma :: ts =>
    match parseExpr f 0 ts with
    | none => none
    | some (a, r) =>
      match parseTail f r with
      | none => none
      | some (as, r') => some (a :: as, r')
  | _ + 1, ts => some ([], ts)
/-- operator loop.  `chain = some last` iff `lhs` is an unparenthesised comparison (chain) whose
    last comparand is `last`: a further comparison operator then extends the chain the way
    `parse_expr` folds `pyast.Compare` (`res = BinOp("and", res, BinOp(op, last, rhs))`). -/
def parseLoop : Nat → Nat → PExpr → Option PExpr → List Tok → Option (PExpr × List Tok)
  | 0, _, _, _, _ => none
  | f + 1, m, lhs, chain, .op o :: ts =>
    if m ≤ prec o then
      match parseExpr f (prec o + 1) ts with
      | none => none
      | some (rhs, r) =>
        if isCmp o then
          match chain with
          | none => parseLoop f m (.bin o lhs rhs) (some rhs) r
          | some last => parseLoop f m (.bin .and lhs (.bin o last rhs)) (some rhs) r
        else parseLoop f m (.bin o lhs rhs) none r
    else some (lhs, .op o :: ts)
  | _ + 1, _, lhs, _, ts => some (lhs, ts)
end

/-- fuel that `Props/C17.parse_print` shows sufficient for every printed expression -/
def fuelFor (ts : List Tok) : Nat := 4 * ts.length + 4

/-- parse a complete token list -/
def parse (ts : List Tok) : Option PExpr :=
  match parseExpr (fuelFor ts) 0 ts with
  | some (e, []) => some e
  | _ => none

/-! ### lexer for the printed text (driver and correspondence only; the theorems are stated on
    tokens) -/

def isIdStart (c : Char) : Bool := c.isAlpha || c == '_'
def isIdChar (c : Char) : Bool := c.isAlphanum || c == '_'

/-- rest of a numeric literal (`12`, `1.5`, `1e-05`): digits, `.`, `e`/`E` with an optional sign
    directly after it -/
def lexNum : Bool → List Char → List Char → List Char × List Char
  | _, acc, [] => (acc, [])
  | afterE, acc, c :: cs =>
    if c.isDigit || c == '.' then lexNum false (c :: acc) cs
    else if c == 'e' || c == 'E' then lexNum true (c :: acc) cs
    else if afterE && (c == '+' || c == '-') then lexNum false (c :: acc) cs
    else (acc, c :: cs)

def lexId : List Char → List Char → List Char × List Char
  | acc, c :: cs => if isIdChar c then lexId (c :: acc) cs else (acc, c :: cs)
  | acc, [] => (acc, [])

def wordTok (w : String) : Tok :=
  if w == "and" then .op .and else if w == "or" then .op .or
  else if w == "True" || w == "False" then .num w else .id w

def lexAux : Nat → List Char → Option (List Tok)
  | 0, _ => none
  | _ + 1, [] => some []
  | f + 1, c :: cs =>
    if c == ' ' then lexAux f cs
    else if isIdStart c then
      let (acc, rest) := lexId [c] cs
      (lexAux f rest).map (wordTok (String.ofList acc.reverse) :: ·)
    else if c.isDigit then
      let (acc, rest) := lexNum false [c] cs
      (lexAux f rest).map (.num (String.ofList acc.reverse) :: ·)
    else
      let two (t : Tok) (rest : List Char) := (lexAux f rest).map (t :: ·)
      match c, cs with
      | '<', '=' :: r => two (.op .le) r
      | '>', '=' :: r => two (.op .ge) r
      | '=', '=' :: r => two (.op .eq) r
      | '<', r => two (.op .lt) r
      | '>', r => two (.op .gt) r
      | '+', r => two (.op .add) r
      | '-', r => two (.op .sub) r
      | '*', r => two (.op .mul) r
      | '/', r => two (.op .div) r
      | '%', r => two (.op .mod) r
      | '(', r => two .lp r
      | ')', r => two .rp r
      | '[', r => two .lb r
      | ']', r => two .rb r
      | ',', r => two .comma r
      | _, _ => none

def lex (s : String) : Option (List Tok) := lexAux (s.length + 1) s.toList

def parseText (s : String) : Option PExpr := (lex s).bind parse

end Exo.Print
