/-
  ExoModel.WfTie — the tie of the well-formedness preservation theorems (Props/C04Shapes.lean) to
  the real scheduling primitives: for an accepted real rewrite `before ↦ after` of a modelled
  primitive, which model shape is it an instance of, and does the decidable side condition of
  that shape's `…_wf_anywhere` theorem hold at the rewrite site?

  Conventions (`name`, `path`, `k`, `flag`) are those of `Rw.check'` (ExoModel/AlphaEq.lean):
  the parameters the real primitive is free to choose (fresh names, parsed bounds, renamed
  copies) are read off `after` exactly as `check'` reads them.

  `shapeOf`   the model shape: local rewrite `f`, site condition `ok`, effective path
  `wfOk`      the site condition evaluated at `siteAt path Γ before`
  `wfMatch`   `after` is the model rewrite of `before` up to renaming (`alphaEqBlocks'`)
  `wfScope`   no binder of `after` shadows a name in scope (`scopeL`)

  Soundness (Lemmas/WfTieSound.lean, `Exo.C04.wf_tie_sound` in Props/C04Shapes.lean):
  `wfOk = ok true`, `wfMatch = ok true`, `wfScope`, `before` well formed  ⇒  `after` well formed.
-/
import ExoModel.WfSite
import ExoModel.RewriteMore
import ExoModel.RwCheck
import ExoModel.AlphaEq
import ExoModel.RewriteCalls

namespace Exo.WfTie
open Exo Exo.Wf Exo.Rw Exo.WfShapes

/-- a model shape instance: the local rewrite, its site condition, the path it is applied at -/
structure Shape where
  f : Local
  ok : Env → List Stmt → Bool
  path : Path

def always : Env → List Stmt → Bool := fun _ _ => true

/-- does the model rewrite `f` at `path` give `after` up to renaming? -/
def modelMatches (f : Local) (path : Path) (before after : List Stmt) : Bool :=
  match rewriteAt f path before with
  | some m => alphaEqBlocks' m after
  | none => false

def divideTail : String → Option Nat
  | "divide_loop_perfect" => some 0
  | "divide_loop_guard" => some 1
  | "divide_loop_cut" => some 2
  | "divide_loop_cut_and_guard" => some 3
  | _ => none

def shapeDivide (tail : Nat) (path : Path) (k : Nat) (sb sa : List Stmt) : Except String Shape :=
  match sb, sa with
  | .loop _ _ _ b _ :: _, .loop io _ ohi [.loop ii _ _ _ _] _ :: rest =>
    let i3 : Sym := match tail, rest with
      | 2, .loop i3 _ _ _ _ :: _ => i3
      | 3, .ite _ [.loop i3 _ _ _ _] _ :: _ => i3
      | _, _ => ii
    -- as in `check'`: the tail copy is the input body (the renaming is absorbed by the alpha
    -- comparison of `wfMatch`)
    .ok ⟨divideLoop k tail io ii i3 ohi b, fun Γ => divideLoopOk Γ tail io ii i3 ohi b, path⟩
  | _, _ => .error "divide_loop: unexpected shape"

def shapeLiftScope (path : Path) (before : List Stmt) : Except String Shape :=
  let opath := path.dropLast
  match path.getLast?, getAt opath before with
  | some (.body _), some (.ite _ [.ite _ _ _] _ :: _) => .ok ⟨liftIfThen, always, opath⟩
  | some (.orelse _), some (.ite _ _ [.ite _ _ _] :: _) => .ok ⟨liftIfElse, always, opath⟩
  | some (.body _), some (.ite _ [.loop _ _ _ _ _] [] :: _) => .ok ⟨liftForOutOfIf, always, opath⟩
  | some (.body _), some (.loop _ _ _ [.ite _ _ _] _ :: _) =>
    .ok ⟨liftIfOutOfLoop, fun _ => liftIfOutOfLoopOk, opath⟩
  | some (.body _), some (.loop _ _ _ [.loop _ _ _ _ _] _ :: _) =>
    .ok ⟨reorderLoops, fun _ => reorderLoopsOk, opath⟩
  | _, _ => .error "lift_scope: unexpected shape"

/-- the candidate readings of the output of `stage_mem` (same candidates as `Rw.checkStageMem`:
    buffer, window and iterators from the copy-out statement, else from the copy-in statement, else
    — zero-filled accumulation without copy-out — every buffer windowed in the block) -/
def stageCands (path : Path) (n : Nat) (accum load store : Bool) (before sb : List Stmt)
    (xs : Sym) (sh : List Expr) (sa : List Stmt) : List Shape :=
  let nl := if load then 1 else 0
  let B' := (sa.drop nl).take n
  let loadN := if load then peelNest 64 (sa.take 1) else ([], [], [])
  let storeN := if store then peelNest 64 ((sa.drop (nl + n)).take 1) else ([], [], [])
  let lg : Option (Option Expr × Stmt) := if load then peelGuard loadN.2.2 else none
  let sg : Option (Option Expr × Stmt) := if store then peelGuard storeN.2.2 else none
  let fromCopy := fun (x : Sym) (ridx : List Expr) (iters : List Sym) =>
    match readWin iters sh ridx with
    | some w => [(x, w, iters)]
    | none => []
  let cands : List (Sym × List WAcc × List Sym) :=
    match sg, lg with
    | some (_, .assign x ridx (.read _ _)), _ => fromCopy x ridx storeN.1
    | some (_, .reduce x ridx (.read _ _)), _ => fromCopy x ridx storeN.1
    | some _, _ => []
    | none, some (_, .assign _ _ (.read x ridx)) => fromCopy x ridx loadN.1
    | none, some (_, .assign _ _ (.lit _)) =>
      match winOfShape sh with
      | some w => ((winSymsL (sb.take n)).eraseDups).map (fun x => (x, w, loadN.1))
      | none => []
    | none, _ => []
  let _ := before
  cands.map (fun (x, w, iters) =>
    let gl := ((lg.map (·.1)).join).map (renameIters loadN.1 iters)
    let gs := ((sg.map (·.1)).join).map (renameIters storeN.1 iters)
    ⟨stageMem x xs w n iters accum load store gl gs B',
     fun Γ => stageMemOk Γ x xs w n iters accum load store gl gs B', path⟩)

/-- the model shape a real rewrite is an instance of (parameters read off `after`) -/
def shapeOf (name : String) (path : Path) (k : Nat) (flag : Bool) (before after : List Stmt) :
    Except String Shape :=
  if name = "delete_pass" then .ok ⟨deletePassLocal, always, [.body 0]⟩ else
  match getAt path before with
  | none => .error "path invalid in input"
  | some sb =>
    let sa := (getAt path after).getD []
    match divideTail name with
    | some tail => shapeDivide tail path k sb sa
    | none =>
    if name = "insert_pass" then
      .ok ⟨if flag then insertPassBefore else insertPassAfter, always, path⟩
    else if name = "reorder_stmts" then .ok ⟨reorderStmts, reorderStmtsOk, path⟩
    else if name = "reorder_loops" then .ok ⟨reorderLoops, fun _ => reorderLoopsOk, path⟩
    else if name = "cut_loop" then
      match sa with
      | .loop _ _ mid _ _ :: .loop i2 _ _ b2 _ :: _ =>
        .ok ⟨cutLoop i2 mid b2, fun Γ => cutLoopOk Γ i2 mid b2, path⟩
      | _ => .error "cut_loop: unexpected shape"
    else if name = "join_loops" then .ok ⟨joinLoops, always, path⟩
    else if name = "specialize" then
      match sa with
      | .ite c _ copy :: _ => .ok ⟨specialize c copy, fun Γ => specializeOk Γ c copy, path⟩
      | _ => .error "specialize: unexpected shape"
    else if name = "eliminate_dead_code" then
      -- which branch was kept is decided by the real analysis: the one whose model rewrite matches
      if modelMatches (deadCode true) path before after then
        .ok ⟨deadCode true, fun _ => deadCodeOk true, path⟩
      else .ok ⟨deadCode false, fun _ => deadCodeOk false, path⟩
    else if name = "remove_loop" then
      if modelMatches (removeLoop false) path before after then
        .ok ⟨removeLoop false, fun _ => removeLoopOk false, path⟩
      else .ok ⟨removeLoop true, fun _ => removeLoopOk true, path⟩
    else if name = "add_loop" then
      match sa with
      | .loop i _ hi _ _ :: _ => .ok ⟨addLoop i hi flag, fun Γ => addLoopOk Γ i hi, path⟩
      | _ => .error "add_loop: unexpected shape"
    else if name = "fission" then
      match sa with
      | .loop _ _ _ _ _ :: .loop i2 _ _ b2 _ :: _ =>
        .ok ⟨fissionLoop k i2 b2, fun Γ => fissionLoopOk Γ i2 b2, path⟩
      | _ => .error "fission: unexpected shape"
    else if name = "fuse" then
      match sb, sa with
      | .loop _ _ _ b _ :: .loop _ _ _ _ _ :: _, .loop _ _ _ bf _ :: _ =>
        .ok ⟨fuseLoops (bf.drop b.length), fun Γ => fuseLoopsOk Γ (bf.drop b.length), path⟩
      | .ite _ _ _ :: .ite _ _ _ :: _, _ => .ok ⟨fuseIfs, fun _ => fuseIfsOk, path⟩
      | _, _ => .error "fuse: unexpected shape"
    else if name = "shift_loop" then
      match sa with
      | .loop _ nlo _ _ _ :: _ => .ok ⟨shiftLoop nlo, fun Γ => shiftLoopOk Γ nlo, path⟩
      | _ => .error "shift_loop: unexpected shape"
    else if name = "unroll_loop" then .ok ⟨unrollLoop, fun _ => unrollLoopOk, path⟩
    else if name = "lift_scope" then shapeLiftScope path before
    else if name = "mult_loops" then
      match sa with
      | .loop kk _ _ _ _ :: _ => .ok ⟨multLoops kk, fun Γ => multLoopsOk Γ kk, path⟩
      | _ => .error "mult_loops: unexpected shape"
    else if name = "lift_alloc" then
      -- conventions of `Rw.checkStorage`: `path` addresses the allocation, `k = n_lifts`
      let L := path.length
      if 1 ≤ k ∧ k + 1 ≤ L then
        .ok ⟨liftAlloc (path.drop (L - k - 1)), fun Γ => liftAllocOk Γ (path.drop (L - k - 1)),
          path.take (L - k)⟩
      else .error "lift_alloc: fewer than n_lifts scopes above the allocation"
    else if name = "sink_alloc" then
      match sb with
      | .alloc x _ :: .ite _ _ e :: _ =>
        if e.isEmpty then .ok ⟨sinkAlloc x, fun Γ => sinkAllocOk Γ x, path⟩
        else match sa with
          | .ite _ _ (.alloc x' _ :: _) :: _ => .ok ⟨sinkAlloc x', fun Γ => sinkAllocOk Γ x', path⟩
          | _ => .error "sink_alloc: else branch of the output does not start with an allocation"
      | .alloc x _ :: .loop _ _ _ _ _ :: _ => .ok ⟨sinkAlloc x, fun Γ => sinkAllocOk Γ x, path⟩
      | _ => .error "sink_alloc: unexpected shape"
    else if name = "delete_buffer" then
      match path.getLast? with
      | some st => .ok ⟨deleteBuffer (st.idx == 0), deleteBufferOk, path⟩
      | none => .error "delete_buffer: empty path"
    else if name = "bind_expr" then
      match sa with
      | .alloc t [] :: .assign _ [] e :: s' :: _ =>
        .ok ⟨bindExpr t e s', fun Γ => bindExprOk Γ t e s', path⟩
      | _ => .error "bind_expr: output does not start with `t : _ ; t = e ; s'` at this path"
    else if name = "split_write" then .ok ⟨splitWrite, always, path⟩
    else if name = "merge_writes" then .ok ⟨mergeWrites, always, path⟩
    else if name = "fold_into_reduce" then .ok ⟨foldIntoReduce, always, path⟩
    else if name = "lift_reduce_constant" then .ok ⟨liftConstant, liftConstantOk, path⟩
    else if name = "inline_assign" then
      if modelMatches inlineAssign path before after then .ok ⟨inlineAssign, always, path⟩
      else .ok ⟨inlineAssignOnly, always, path⟩
    else if name = "rewrite_expr" then
      match sa with
      | s' :: _ => .ok ⟨rewriteExprWith s', fun Γ => rewriteExprOk Γ s', path⟩
      | _ => .error "rewrite_expr: path invalid in output"
    else if name = "extract_subproc" then
      match sa with
      | .call sub args :: _ =>
        .ok ⟨extractBlock sub args k, fun Γ => extractBlockOk Γ sub args k, path⟩
      | _ => .error "extract_subproc: no call at the path in the output"
    else if name = "expand_dim" then
      -- the new extent and the indexing expression are read off the output (as `checkStorage`)
      match sb, sa with
      | .alloc x _ :: _, .alloc _ (n :: _) :: r2 =>
        .ok ⟨expandDim n (((headIdxL x r2).head?).getD (.lit (.int 0))),
          fun Γ => expandDimOk Γ n (((headIdxL x r2).head?).getD (.lit (.int 0))), path⟩
      | _, _ => .error "expand_dim: unexpected shape"
    else if name = "divide_dim" then
      match sa with
      | .alloc _ sh2 :: _ =>
        match sh2[k + 1]? with
        | some (.lit (.int q)) => .ok ⟨divideDim k q, fun _ => divideDimOk, path⟩
        | _ => .error "divide_dim: extent k+1 of the output allocation is not an integer literal"
      | _ => .error "divide_dim: unexpected shape"
    else if name = "mult_dim" then .ok ⟨multDim (k / 16) (k % 16), fun _ => multDimOk, path⟩
    else if name = "rearrange_dim" then
      -- k = Σ perm[i] * 16^i (as `checkStorage`)
      match sb with
      | .alloc _ sh :: _ =>
        .ok ⟨rearrangeDim (decodePerm sh.length k), fun _ => rearrangeDimOk (decodePerm sh.length k), path⟩
      | _ => .error "rearrange_dim: unexpected shape"
    else if name = "resize_dim" then
      if flag then .error "no storage model for resize_dim(fold=True)"
      else
        match sb, sa with
        | .alloc x _ :: _, .alloc _ sh2 :: r2 =>
          match sh2[k]? with
          | some size =>
            .ok ⟨resizeDim k size (match (dimIdxL x k r2).head? with
                | some (.binop .sub _ o) => o
                | _ => .lit (.int 0)),
              fun Γ => resizeDimOk Γ size (match (dimIdxL x k r2).head? with
                | some (.binop .sub _ o) => o
                | _ => .lit (.int 0)), path⟩
          | none => .error "resize_dim: the output allocation has no dimension k"
        | _, _ => .error "resize_dim: unexpected shape"
    else if name = "commute_expr" then
      match sa with
      | s' :: _ => .ok ⟨commuteExprWith s', always, path⟩
      | _ => .error "commute_expr: path invalid in output"
    else if name = "left_reassociate_expr" then
      match sa with
      | s' :: _ => .ok ⟨reassocExprWith s', always, path⟩
      | _ => .error "left_reassociate_expr: path invalid in output"
    else if name = "divide_with_recompute" then
      match sa with
      | .loop io _ ohi [.loop ii _ _ _ _] _ :: _ =>
        .ok ⟨divideWithRecompute io ii ohi (k : Int), fun Γ => divideRecomputeOk Γ io ii ohi, path⟩
      | _ => .error "divide_with_recompute: unexpected shape"
    else if name = "stage_mem" ∨ name = "stage_mem_all" then
      -- k = block length (0 read as 1), flag = accum; everything else read off the output
      match sa with
      | .alloc xs sh :: sa' =>
        let n := max k 1
        let cs :=
          if sa'.length == sb.length + 2 then stageCands path n flag true true before sb xs sh sa'
          else stageCands path n flag true false before sb xs sh sa' ++
               stageCands path n flag false true before sb xs sh sa'
        match cs.find? (fun c => modelMatches c.f c.path before after) with
        | some c => .ok c
        | none => .error "stage_mem: no reading of the output is the model rewrite"
      | _ => .error "stage_mem: output does not start with an allocation at this path"
    else if name = "reuse_buffer" then
      -- path = allocation of the kept buffer x; k = encoded address of the replaced allocation
      match decodePath 64 k with
      | none => .error "reuse_buffer: k does not encode an address"
      | some other =>
        match sb, other.getLast? with
        | .alloc x _ :: _, some st =>
          .ok ⟨reuseBuffer x (st.idx == 0), fun Γ => reuseBufferOk Γ x, other⟩
        | _, _ => .error "reuse_buffer: path / decoded k do not address two allocations"
    else .error s!"no well-formedness theorem for {name}"

end Exo.WfTie

namespace Exo.Rw
open Exo Exo.Wf Exo.WfShapes Exo.WfTie

/-- the site condition of the shape's `…_wf_anywhere` theorem, evaluated at the rewrite site -/
def wfOk (name : String) (path : Path) (k : Nat) (flag : Bool) (before after : List Stmt)
    (Γ : Env) : Except String Bool :=
  match shapeOf name path k flag before after with
  | .error e => .error e
  | .ok sh =>
    match siteAt sh.path Γ before with
    | some (Γs, site) => .ok (sh.ok Γs site)
    | none => .error "no site: the path is invalid or the statements before it are ill formed"

/-- `after` is the model rewrite of `before` up to renaming of bound names -/
def wfMatch (name : String) (path : Path) (k : Nat) (flag : Bool) (before after : List Stmt) :
    Except String Bool :=
  match shapeOf name path k flag before after with
  | .error e => .error e
  | .ok sh => .ok (WfTie.modelMatches sh.f sh.path before after)

/-- no binder of `after` (callee bodies included) shadows a name in scope -/
def wfScope (Γ : Env) (after : List Stmt) : Bool := (scopeL (Γ.map Prod.fst) after).isSome

end Exo.Rw
