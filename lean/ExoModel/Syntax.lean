/-
  ExoModel.Syntax — mirror of the part of exo's LoopIR (src/exo/core/LoopIR.py, `module LoopIR`)
  that has a run-time meaning.  Source information and numeric precision are dropped; the
  exporter (harness/export_ir.py) records for every expression whether it is control
  (index/size/int/bool/stride) or data.  Callee procedures are embedded in `call` nodes exactly
  as in LoopIR, so the semantics needs no procedure table and no fuel.
-/
namespace Exo

structure Sym where
  name : String
  id : Nat
deriving DecidableEq, Repr, Hashable, Inhabited

instance : ToString Sym := ⟨fun s => s.name ++ "_" ++ toString s.id⟩

inductive BinOp
  | add | sub | mul | div | mod | lt | gt | le | ge | eq | and | or
deriving DecidableEq, Repr, Inhabited

/-- literals: control integers, booleans, and data literals as exact rationals `num/den` -/
inductive Lit
  | int (n : Int)
  | bool (b : Bool)
  | data (num : Int) (den : Nat)
deriving DecidableEq, Repr, Inhabited

mutual
inductive Expr where
  | read (x : Sym) (idx : List Expr)
  | lit (c : Lit)
  | usub (e : Expr)
  | binop (op : BinOp) (a b : Expr)
  | extern (f : String) (args : List Expr)
  | win (x : Sym) (acc : List WAcc)
  | stride (x : Sym) (dim : Nat)
  | readcfg (cfg fld : String)
inductive WAcc where
  | interval (lo hi : Expr)
  | point (e : Expr)
end

instance : Inhabited Expr := ⟨.lit (.int 0)⟩

/-- kinds of control arguments -/
inductive CtrlKind | size | index | int | bool | stride
deriving DecidableEq, Repr, Inhabited

/-- type of a procedure argument, as far as the semantics needs it -/
inductive ArgTy where
  | ctrl (k : CtrlKind)
  | scalar
  | tensor (shape : List Expr) (isWin : Bool)

structure FnArg where
  name : Sym
  ty : ArgTy

mutual
inductive Stmt where
  | assign (x : Sym) (idx : List Expr) (rhs : Expr)
  | reduce (x : Sym) (idx : List Expr) (rhs : Expr)
  | writecfg (cfg fld : String) (rhs : Expr) (isData : Bool)
  | pass
  | ite (c : Expr) (t e : List Stmt)
  | loop (i : Sym) (lo hi : Expr) (body : List Stmt) (par : Bool)
  | alloc (x : Sym) (shape : List Expr)
  | free (x : Sym)
  | call (f : Proc) (args : List Expr)
  | window (x : Sym) (rhs : Expr)
inductive Proc where
  | mk (name : String) (args : List FnArg) (preds : List Expr) (body : List Stmt)
end

instance : Inhabited Stmt := ⟨.pass⟩

def Proc.name : Proc → String | .mk n _ _ _ => n
def Proc.args : Proc → List FnArg | .mk _ a _ _ => a
def Proc.preds : Proc → List Expr | .mk _ _ p _ => p
def Proc.body : Proc → List Stmt | .mk _ _ _ b => b

end Exo
