/-
  ExoModel.Simplify — literal executable model of exo's index simplifier
  (src/exo/rewrite/LoopIR_scheduling.py: `_DoNormalize` 2877-3277, `DoSimplify` 3280-3587).

  What is mirrored (quirks included):
    * `normalize_e` / `concat_map` (coefficient map with the temporary constant symbol `C`),
      `get_normalized_expr`, `generate_loopIR` with `sorted((coeff, Sym))` ordering,
      `division_simplification` (all four exits), `division_denominator_simplification`,
      the denominator–splitting loop, `modulo_simplification` (asks `0 <= e < m` since the fix of finding F2, commit d86c98ae),
      `has_div_mod_config` gating, `index_start`, `_DoNormalize.map_e`;
    * `DoSimplify.cfold` / `map_binop` / `is_quotient_remainder` / `map_e`,
      `add_fact` / `is_known_constant` with the table keyed by the PRINTED expression
      (`str(e)`: `_print_expr` with a fresh `PrintEnv`, whose `get_name` suffix logic is mirrored);
    * the statement layer of both passes: scoping of the range environment and of the fact table,
      dead-branch splicing, zero-trip loop deletion, `pass` insertion by `_delete`.

  What enters as a parameter:
    * `Oracle` = the answers of `IndexRangeEnvironment.check_expr_bound(s)` (C13 models and proves
      that analysis; here it is only assumed sound),
    * `nodeEq` = Python `==` on attrs nodes in the `(a + b) - a` rule (it compares `srcinfo` objects by
      identity, so it is not a function of the expression structure).

  Outside the model (returns `none`): ill-typed operand combinations the front end rejects,
  non-positive literal divisors, Python assertion failures (non-affine products, ReadConfig in a loop
  bound = the `AssertionError` of `index_range_analysis`).
-/
import ExoModel.Syntax

namespace Exo.Simplify
open Exo (Sym)

/-! ## expressions and their value -/

inductive Op
  | add | sub | mul | div | mod | and | or | lt | gt | le | ge | eq
deriving DecidableEq, Repr, Inhabited

def Op.isArith : Op → Bool
  | .add | .sub | .mul | .div | .mod => true
  | _ => false

/-- control expressions: `Read` of an index/size variable, `Const` (int / bool), `USub`, `BinOp`,
    `ReadConfig` of an index-typed field -/
inductive Expr
  | var (s : Sym)
  | const (v : Int)
  | bconst (b : Bool)
  | usub (e : Expr)
  | bin (op : Op) (l r : Expr)
  | cfg (c f : String)
deriving DecidableEq, Repr, Inhabited

abbrev CfgSt := String → String → Int

/-- a valuation: values of the symbols and of the configuration fields -/
structure Val where
  sym : Sym → Int
  cfg : CfgSt

def b2i (b : Bool) : Int := if b then 1 else 0

/-- `/` and `%` are floor division / modulo for positive divisors (Lean `Int./`, `Int.%`);
    booleans are 0/1 -/
def evalOp : Op → Int → Int → Int
  | .add, a, b => a + b
  | .sub, a, b => a - b
  | .mul, a, b => a * b
  | .div, a, b => a / b
  | .mod, a, b => a % b
  | .and, a, b => b2i (decide (a ≠ 0) && decide (b ≠ 0))
  | .or, a, b => b2i (decide (a ≠ 0) || decide (b ≠ 0))
  | .lt, a, b => b2i (decide (a < b))
  | .gt, a, b => b2i (decide (a > b))
  | .le, a, b => b2i (decide (a ≤ b))
  | .ge, a, b => b2i (decide (a ≥ b))
  | .eq, a, b => b2i (decide (a = b))

def eval (ρ : Val) : Expr → Int
  | .var s => ρ.sym s
  | .const v => v
  | .bconst b => b2i b
  | .usub e => - eval ρ e
  | .bin op l r => evalOp op (eval ρ l) (eval ρ r)
  | .cfg c f => ρ.cfg c f

def Expr.hasCfg : Expr → Bool
  | .usub e => e.hasCfg
  | .bin _ l r => l.hasCfg || r.hasCfg
  | .cfg _ _ => true
  | _ => false

def Expr.syms : Expr → List Sym
  | .var s => [s]
  | .usub e => e.syms
  | .bin _ l r => l.syms ++ r.syms
  | _ => []

/-- every `/` and `%` has a positive literal divisor (enforced by the front end, typecheck.py:503) -/
def Expr.WF : Expr → Prop
  | .usub e => e.WF
  | .bin op l r =>
      l.WF ∧ r.WF ∧ ((op = .div ∨ op = .mod) → ∃ d, r = .const d ∧ 0 < d)
  | _ => True

/-! ## the range oracle (`IndexRangeEnvironment.check_expr_bound(s)`) -/

/-- `.lt`: `check_expr_bound(e, "<", c)`;  `.ge`: `check_expr_bound(c, "<=", e)` -/
inductive Cmp | lt | ge
deriving DecidableEq, Repr, Inhabited

abbrev Oracle := Expr → Cmp → Int → Bool

def Cmp.holds : Cmp → Int → Int → Prop
  | .lt, v, c => v < c
  | .ge, v, c => c ≤ v

/-- `check_expr_bounds(lo, "<=", e, "<", hi)` is the conjunction of the two single checks
    (range_analysis.py:485-491) -/
def Oracle.between (O : Oracle) (lo : Int) (e : Expr) (hi : Int) : Bool :=
  O e .ge lo && O e .lt hi

/-! ## `_DoNormalize` : coefficient maps -/

/-- the dict of `normalize_e`: entry of the temporary constant symbol `C` (if present) and the
    entries of the program symbols in insertion order -/
structure NMap where
  c : Option Int
  ts : List (Sym × Int)
deriving Repr, Inhabited

def NMap.len (m : NMap) : Nat := m.ts.length + (if m.c.isSome then 1 else 0)

/-- add `v` to the entry of `s`, or append a new entry `(s, g v)` -/
def updT (f : Int → Int → Int) (g : Int → Int) (s : Sym) (v : Int) : List (Sym × Int) → List (Sym × Int)
  | [] => [(s, g v)]
  | (s', a) :: r => if s' = s then (s', f a v) :: r else (s', a) :: updT f g s v r

/-- `lhs | rhs | common` (op "+") and `lhs | neg_rhs | common` (op "-"):
    keys of `lhs` first (common ones combined), then the new keys of `rhs` in their order -/
def mergeT (f : Int → Int → Int) (g : Int → Int) (l r : List (Sym × Int)) : List (Sym × Int) :=
  r.foldl (fun acc t => updT f g t.1 t.2 acc) l

def mergeC (f : Int → Int → Int) (g : Int → Int) : Option Int → Option Int → Option Int
  | some a, some b => some (f a b)
  | some a, none => some a
  | none, some b => some (g b)
  | none, none => none

def NMap.scale (m : NMap) (k : Int) : NMap :=
  { c := m.c.map (· * k), ts := m.ts.map (fun t => (t.1, t.2 * k)) }

def concatMap (op : Op) (lhs rhs : NMap) : Option NMap :=
  match op with
  | .add => some { c := mergeC (· + ·) id lhs.c rhs.c, ts := mergeT (· + ·) id lhs.ts rhs.ts }
  | .sub => some { c := mergeC (· - ·) (- ·) lhs.c rhs.c, ts := mergeT (· - ·) (- ·) lhs.ts rhs.ts }
  | .mul =>
    -- `if len(rhs) == 1 and self.C in rhs` … `else: assert len(lhs) == 1 and self.C in lhs`
    match rhs.ts, rhs.c with
    | [], some k => some (lhs.scale k)
    | _, _ =>
      match lhs.ts, lhs.c with
      | [], some k => some (rhs.scale k)
      | _, _ => none
  | _ => none

def normalizeE : Expr → Option NMap
  | .var s => some { c := none, ts := [(s, 1)] }
  | .const v => some { c := some v, ts := [] }
  | .usub e => (normalizeE e).map (fun m => { c := m.c.map (- ·), ts := m.ts.map (fun t => (t.1, - t.2)) })
  | .bin op l r =>
    match normalizeE l, normalizeE r with
    | some a, some b => concatMap op a b
    | _, _ => none
  | _ => none

abbrev Term := Int × Sym

/-- `get_normalized_expr`: the constant and `[(n_map[v], v) for v in n_map if v != C and n_map[v] != 0]` -/
def getNormalized (e : Expr) : Option (Int × List Term) :=
  (normalizeE e).map (fun m => (m.c.getD 0, (m.ts.filter (fun t => t.2 ≠ 0)).map (fun t => (t.2, t.1))))

/-- Python tuple order on `(coeff, Sym)`; `Sym.__lt__` compares `(name, id)` -/
def termLe (a b : Term) : Bool :=
  decide (a.1 < b.1) ||
    (decide (a.1 = b.1) &&
      (decide (a.2.name < b.2.name) || (decide (a.2.name = b.2.name) && decide (a.2.id ≤ b.2.id))))

def insertT (t : Term) : List Term → List Term
  | [] => [t]
  | x :: r => if termLe t x then t :: x :: r else x :: insertT t r

def sortT (l : List Term) : List Term := l.foldr insertT []

def scaleRead (c : Int) (s : Sym) : Expr := .bin .mul (.const c) (.var s)

def genStep (acc : Expr) (t : Term) : Expr :=
  if t.1 > 0 then .bin .add acc (scaleRead t.1 t.2) else .bin .sub acc (scaleRead (- t.1) t.2)

/-- `generate_loopIR(_, Const(c), l)` -/
def gen (c : Int) (l : List Term) : Expr := (sortT l).foldl genStep (.const c)

def hasDMC : Expr → Bool
  | .var _ => false
  | .const _ => false
  | .bconst _ => false
  | .usub e => hasDMC e
  | .bin op l r => op == .div || op == .mod || hasDMC l || hasDMC r
  | .cfg _ _ => true

def divTerms (d : Int) (l : List Term) : List Term := l.map (fun t => (t.1 / d, t.2))

/-- `division_simplification` for `lhs / d` -/
def divisionSimp (O : Oracle) (lhs : Expr) (d : Int) : Option Expr :=
  match getNormalized lhs with
  | none => none
  | some (c, nl) =>
    let nd := nl.filter (fun t => t.1 % d ≠ 0)
    let dv := divTerms d (nl.filter (fun t => t.1 % d = 0))
    if nd.isEmpty then some (gen (c / d) (divTerms d nl))
    else if c % d = 0 then
      if O.between 0 (gen 0 nd) d then some (gen (c / d) dv)
      else some (.bin .div (gen c nl) (.const d))
    else
      if O.between 0 (gen c nd) d then some (gen 0 dv)
      else some (.bin .div (gen c nl) (.const d))

/-- `division_denominator_simplification`: `((x / c1) / c2)` ↦ `x / (c1 * c2)`, repeatedly -/
def denomLoop : Expr → Int → Expr
  | .bin .div x (.const c1), c => denomLoop x (c1 * c)
  | x, c => .bin .div x (.const c)

def stillDiv : Expr → Bool
  | .bin .div _ _ => true
  | _ => false

/-- the `while divisor * divisor <= d` loop of `division_simplification_and_try_spliting_denominator` -/
def splitLoop (O : Oracle) (lhs : Expr) (d : Int) (e : Expr) : Nat → Int → Option Expr
  | 0, _ => some e
  | fuel + 1, k =>
    if k * k ≤ d then
      if d % k = 0 then
        match divisionSimp O lhs k with
        | none => none
        | some e1 =>
          if !stillDiv e1 then some (.bin .div e1 (.const (d / k)))
          else
            match divisionSimp O lhs (d / k) with
            | none => none
            | some e2 =>
              if !stillDiv e2 then some (.bin .div e2 (.const k))
              else splitLoop O lhs d e fuel (k + 1)
      else splitLoop O lhs d e fuel (k + 1)
    else some e

def divSplit (O : Oracle) (lhs : Expr) (d : Int) : Option Expr :=
  match divisionSimp O lhs d with
  | none => none
  | some e =>
    match e with
    | .bin .div lhs' (.const d') => splitLoop O lhs' d' e d'.toNat 2
    | _ => some e

/-- `modulo_simplification` for `lhs % m` — asks the range analysis for `0 <= new_lhs < m`
    (`check_expr_bounds(0, leq, new_lhs, lt, m)`, as of commit d86c98ae; before it only `new_lhs < m`
    was asked, finding F2) -/
def modSimp (O : Oracle) (lhs : Expr) (m : Int) : Option Expr :=
  match getNormalized lhs with
  | none => none
  | some (c, nl) =>
    let nl' := nl.filter (fun t => t.1 % m ≠ 0)
    if nl'.isEmpty then some (.const (c % m))
    else
      let c' := if c % m = 0 then 0 else c
      let newLhs := gen c' nl'
      if O.between 0 newLhs m then some newLhs else some (.bin .mod newLhs (.const m))

def normalForm (e : Expr) : Option Expr :=
  (getNormalized e).map (fun p => gen p.1 p.2)

/-- `index_start` -/
def indexStart (O : Oracle) : Expr → Option Expr
  | .bin op l r =>
    if !op.isArith then none
    else
      match indexStart O l, indexStart O r with
      | some l', some r' =>
        match op with
        | .div =>
          match r' with
          | .const d =>
            if d ≤ 0 then none
            else if hasDMC l' then some (denomLoop l' d)
            else divSplit O l' d
          | _ => none
        | .mod =>
          match r' with
          | .const d =>
            if d ≤ 0 then none
            else if hasDMC l' then some (.bin .mod l' r')
            else modSimp O l' d
          | _ => none
        | _ =>
          if hasDMC (.bin op l' r') then some (.bin op l' r') else normalForm (.bin op l' r')
      | _, _ => none
  | .var s => normalForm (.var s)
  | .const v => normalForm (.const v)
  | .usub e => if hasDMC (.usub e) then some (.usub e) else normalForm (.usub e)
  | .cfg c f => some (.cfg c f)
  | .bconst _ => none

/-- `_DoNormalize.map_e`: indexable expressions go through `index_start`, the others are traversed -/
def normE (O : Oracle) : Expr → Option Expr
  | .bin op l r =>
    if op.isArith then indexStart O (.bin op l r)
    else
      match normE O l, normE O r with
      | some l', some r' => some (.bin op l' r')
      | _, _ => none
  | .bconst b => some (.bconst b)
  | .cfg c f => some (.cfg c f)
  | .var s => indexStart O (.var s)
  | .const v => indexStart O (.const v)
  | .usub e => indexStart O (.usub e)

/-! ## the printed key (`str(e)`) -/

structure PEnv where
  env : List (Sym × String)
  names : List (String × Nat)
deriving Repr, Inhabited

/-- `while candidate in self.names: candidate = f"{nm}_{num}"; num += 1` -/
def pickName (names : List (String × Nat)) (base : String) : Nat → String → Nat → String × Nat
  | 0, cand, num => (cand, num)
  | fuel + 1, cand, num =>
    if names.any (fun p => p.1 == cand) then
      pickName names base fuel (base ++ "_" ++ toString num) (num + 1)
    else (cand, num)

/-- `PrintEnv.get_name` -/
def getName (pe : PEnv) (s : Sym) : String × PEnv :=
  match pe.env.lookup s with
  | some r => (r, pe)
  | none =>
    let num := (pe.names.lookup s.name).getD 1
    let p := pickName pe.names s.name (pe.names.length + 1) s.name num
    (p.1, { env := (s, p.1) :: pe.env, names := (s.name, p.2) :: pe.names })

/-- the printed form as a tree: symbols replaced by the names `PrintEnv` gives them.
    `_print_expr` lays this tree out with full precedence-based parenthesisation (`KExpr.toStr`);
    the only two trees with the same text are `Const(-n)` and `USub(Const(n))`, which `keyAux` identifies. -/
inductive KExpr
  | name (n : String)
  | const (v : Int)
  | bconst (b : Bool)
  | usub (e : KExpr)
  | bin (op : Op) (l r : KExpr)
  | cfg (c f : String)
deriving DecidableEq, Repr, Inhabited

def keyAux : Expr → PEnv → KExpr × PEnv
  | .var s, pe => let p := getName pe s; (.name p.1, p.2)
  | .const v, pe => (.const v, pe)
  | .bconst b, pe => (.bconst b, pe)
  | .usub e, pe =>
    let p := keyAux e pe
    match p.1 with
    | .const v => if v > 0 then (.const (- v), p.2) else (.usub (.const v), p.2)
    | k => (.usub k, p.2)
  | .bin op l r, pe =>
    let p := keyAux l pe
    let q := keyAux r p.2
    (.bin op p.1 q.1, q.2)
  | .cfg c f, pe => (.cfg c f, pe)

/-- `str(e)` as a tree (fresh `PrintEnv` per call, LoopIR_pprint.py:343) -/
def key (e : Expr) : KExpr := (keyAux e ⟨[], []⟩).1

def Op.str : Op → String
  | .add => "+" | .sub => "-" | .mul => "*" | .div => "/" | .mod => "%"
  | .and => "and" | .or => "or" | .lt => "<" | .gt => ">" | .le => "<=" | .ge => ">=" | .eq => "=="

def Op.prec : Op → Nat
  | .or => 10 | .and => 20
  | .lt | .gt | .le | .ge | .eq => 30
  | .add | .sub => 40
  | .mul | .div | .mod => 50

/-- `_print_expr` (LoopIR_pprint.py:480-501) -/
def KExpr.toStr : KExpr → (prec : Nat := 0) → String
  | .name n, _ => n
  | .const v, _ => toString v
  | .bconst b, _ => if b then "True" else "False"
  | .usub e, _ => "-" ++ e.toStr 60
  | .bin op l r, prec =>
    let s := l.toStr op.prec ++ " " ++ op.str ++ " " ++ r.toStr (op.prec + 1)
    if op.prec < prec then "(" ++ s ++ ")" else s
  | .cfg c f, _ => c ++ "." ++ f

def keyStr (e : Expr) : String := (key e).toStr

/-! ## `DoSimplify` : expression layer -/

/-- `self.facts`: most recent binding first (`ChainMap` child first, later assignment wins) -/
abbrev Facts := List (KExpr × Expr)

def isKnown (F : Facts) (e : Expr) : Option Expr := F.lookup (key e)

def isConst : Expr → Bool
  | .const _ => true
  | .bconst _ => true
  | _ => false

/-- `isinstance(e, Const) and e.val == v` (Python: `True == 1`, `False == 0`) -/
def isConstVal (e : Expr) (v : Int) : Bool :=
  match e with
  | .const c => c == v
  | .bconst b => b2i b == v
  | _ => false

def isBool : Expr → Bool
  | .bconst _ => true
  | .bin op _ _ => !op.isArith
  | _ => false

/-- `cfold` on two `Const` nodes (int `/` is `//`) -/
def cfold (op : Op) : Expr → Expr → Option Expr
  | .const a, .const b =>
    match op with
    | .add => some (.const (a + b))
    | .sub => some (.const (a - b))
    | .mul => some (.const (a * b))
    | .div => if b ≤ 0 then none else some (.const (a / b))
    | .mod => if b ≤ 0 then none else some (.const (a % b))
    | .lt => some (.bconst (decide (a < b)))
    | .gt => some (.bconst (decide (a > b)))
    | .le => some (.bconst (decide (a ≤ b)))
    | .ge => some (.bconst (decide (a ≥ b)))
    | .eq => some (.bconst (decide (a = b)))
    | _ => none
  | .bconst a, .bconst b =>
    match op with
    | .and => some (.bconst (a && b))
    | .or => some (.bconst (a || b))
    | .eq => some (.bconst (a == b))
    | _ => none
  | _, _ => none

def checkQuot (num md cst dv : Expr) : Bool :=
  isConst cst &&
    (match dv with
     | .bin .div dl dr => key cst == key md && key dl == key num && key dr == key md
     | _ => false)

def quotOf (num md quot : Expr) : Option Expr :=
  match quot with
  | .bin .mul a b => if checkQuot num md a b || checkQuot num md b a then some num else none
  | _ => none

/-- `is_quotient_remainder(l + r)`; outer `none` = the `assert isinstance(…rhs, Const)` failed -/
def isQuotRem (l r : Expr) : Option (Option Expr) :=
  match l with
  | .bin .mod num md => if isConst md then some (quotOf num md r) else none
  | _ =>
    match r with
    | .bin .mod num md => if isConst md then some (quotOf num md l) else none
    | _ => some none

/-- `map_binop` after the operands have been simplified -/
def mapBinop (nodeEq : Expr → Expr → Bool) (op : Op) (l r : Expr) : Option Expr :=
  if isConst l && isConst r then cfold op l r
  else
    match op with
    | .add =>
      if isConstVal l 0 then some r
      else if isConstVal r 0 then some l
      else
        match isQuotRem l r with
        | none => none
        | some (some v) => some v
        | some none => some (.bin .add l r)
    | .sub =>
      if isConstVal r 0 then some l
      else if isConstVal l 0 then some (.usub r)
      else
        match l with
        | .bin .add a b =>
          if nodeEq a r then some b else if nodeEq b r then some a else some (.bin .sub l r)
        | _ => some (.bin .sub l r)
    | .mul =>
      if isConstVal l 0 || isConstVal r 0 then some (.const 0)
      else if isConstVal l 1 then some r
      else if isConstVal r 1 then some l
      else some (.bin .mul l r)
    | .div => if isConstVal r 1 then some l else some (.bin .div l r)
    | .mod => if isConstVal r 1 then some (.const 0) else some (.bin .mod l r)
    | .and =>
      if !(isBool l && isBool r) then none
      else if isConstVal l 0 then some (.bconst false)
      else if isConstVal l 1 then some r
      else if isConstVal r 0 then some (.bconst false)
      else if isConstVal r 1 then some l
      else some (.bin .and l r)
    | .or =>
      if !(isBool l && isBool r) then none
      else if isConstVal l 0 then some r
      else if isConstVal l 1 then some (.bconst true)
      else if isConstVal r 0 then some l
      else if isConstVal r 1 then some (.bconst true)
      else some (.bin .or l r)
    | _ => some (.bin op l r)

/-- `DoSimplify.map_e` -/
def simpE (nodeEq : Expr → Expr → Bool) (F : Facts) : Expr → Option Expr
  | .bin op l r =>
    match isKnown F (.bin op l r) with
    | some c => some c
    | none =>
      match simpE nodeEq F l, simpE nodeEq F r with
      | some l', some r' =>
        match mapBinop nodeEq op l' r' with
        | some e' => some ((isKnown F e').getD e')
        | none => none
      | _, _ => none
  | .usub a =>
    match isKnown F (.usub a) with
    | some c => some c
    | none =>
      match simpE nodeEq F a with
      | some a' => some ((isKnown F (.usub a')).getD (.usub a'))
      | none => none
  | e => some ((isKnown F e).getD e)

/-- `add_fact` -/
def addFactCore (expr cst : Expr) (F : Facts) : Facts :=
  let F1 := (key expr, cst) :: F
  match expr with
  | .bin .div a b => if isConstVal cst 0 then (key (.bin .mod a b), a) :: F1 else F1
  | _ => F1

def addFact (cond : Expr) (F : Facts) : Facts :=
  match cond with
  | .bin .eq l r =>
    if isConst r then addFactCore l r F
    else if isConst l then addFactCore r l F
    else F
  | _ => F

/-! ## statements -/

mutual
inductive Stmt
  /-- any leaf statement (Assign / Reduce / Call / Alloc / WindowStmt): its index expressions -/
  | obs (es : List Expr)
  | wcfg (c f : String) (e : Expr)
  | ite (c : Expr) (t e : Block)
  | loop (i : Sym) (lo hi : Expr) (b : Block)
  | pass
inductive Block
  | nil
  | cons (s : Stmt) (b : Block)
end

deriving instance DecidableEq for Stmt, Block

instance : Inhabited Stmt := ⟨.pass⟩
instance : Inhabited Block := ⟨.nil⟩

def Block.append : Block → Block → Block
  | .nil, b => b
  | .cons s a, b => .cons s (a.append b)

def Block.isNil : Block → Bool
  | .nil => true
  | _ => false

/-- `Block._delete` puts a `pass` when the last statement of a block is deleted -/
def Block.orPass (orig result : Block) : Block :=
  match orig, result with
  | .cons _ _, .nil => .cons .pass .nil
  | _, r => r

def mapMOpt (f : Expr → Option Expr) : List Expr → Option (List Expr)
  | [] => some []
  | e :: r =>
    match f e, mapMOpt f r with
    | some e', some r' => some (e' :: r')
    | _, _ => none

/-- the loops entered so far, innermost first, with the *normalised* bounds
    (`self.env.add_loop_iter(s.iter, new_lo, new_hi)`) -/
abbrev Scope := List (Sym × Expr × Expr)

abbrev OracleS := Scope → Oracle

mutual
/-- `_DoNormalize.map_s` -/
def normS (O : OracleS) (sc : Scope) : Stmt → Option Stmt
  | .obs es => (mapMOpt (normE (O sc)) es).map .obs
  | .wcfg c f e => (normE (O sc) e).map (.wcfg c f)
  | .ite c t e =>
    match normE (O sc) c, normB O sc t, normB O sc e with
    | some c', some t', some e' => some (.ite c' t' e')
    | _, _, _ => none
  | .loop i lo hi b =>
    match normE (O sc) lo, normE (O sc) hi with
    | some lo', some hi' =>
      -- `add_loop_iter` → `index_range_analysis` asserts on ReadConfig
      if lo'.hasCfg || hi'.hasCfg then none
      else
        match normB O ((i, lo', hi') :: sc) b with
        | some b' => some (.loop i lo' hi' b')
        | none => none
    | _, _ => none
  | .pass => some .pass
def normB (O : OracleS) (sc : Scope) : Block → Option Block
  | .nil => some .nil
  | .cons s b =>
    match normS O sc s, normB O sc b with
    | some s', some b' => some (.cons s' b')
    | _, _ => none
end

/-- `hi.val == lo.val` on two `Const` nodes -/
def constEq : Expr → Expr → Bool
  | .const a, .const b => a == b
  | _, _ => false

/-- `isinstance(cond, Const)` and its truthiness -/
def constCond : Expr → Option Bool
  | .const v => some (v != 0)
  | .bconst b => some b
  | _ => none

mutual
/-- `DoSimplify.map_s`; the result is spliced into the enclosing block -/
def simpS (nodeEq : Expr → Expr → Bool) (F : Facts) : Stmt → Option Block
  | .obs es => (mapMOpt (simpE nodeEq F) es).map (fun es' => .cons (.obs es') .nil)
  | .wcfg c f e => (simpE nodeEq F e).map (fun e' => .cons (.wcfg c f e') .nil)
  | .ite c t e =>
    match simpE nodeEq F c with
    | none => none
    | some c' =>
      match constCond c' with
      | some true => simpL nodeEq F t
      | some false => simpL nodeEq F e
      | none =>
        match simpL nodeEq (addFact c' F) t, simpL nodeEq F e with
        | some t', some e' => some (.cons (.ite c' (t.orPass t') (e.orPass e')) .nil)
        | _, _ => none
  | .loop i lo hi b =>
    match simpE nodeEq F lo, simpE nodeEq F hi with
    | some lo', some hi' =>
      if constEq lo' hi' then some .nil
      else
        match simpL nodeEq F b with
        | some b' => some (.cons (.loop i lo' hi' (b.orPass b')) .nil)
        | none => none
    | _, _ => none
  | .pass => some (.cons .pass .nil)
/-- the statements of a block one after the other (no `pass` insertion yet) -/
def simpL (nodeEq : Expr → Expr → Bool) (F : Facts) : Block → Option Block
  | .nil => some .nil
  | .cons s b =>
    match simpS nodeEq F s, simpL nodeEq F b with
    | some s', some b' => some (s'.append b')
    | _, _ => none
end

def simpB (nodeEq : Expr → Expr → Bool) (F : Facts) (b : Block) : Option Block :=
  (simpL nodeEq F b).map (b.orPass ·)

/-- `simplify` on a procedure body: `_DoNormalize` then `DoSimplify` -/
def simplifyB (O : OracleS) (nodeEq : Expr → Expr → Bool) (b : Block) : Option Block :=
  match normB O [] b with
  | some b1 => simpB nodeEq [] b1
  | none => none

/-- `simplify` on one expression in the scope `O` with branch facts `F` -/
def simplifyE (O : Oracle) (nodeEq : Expr → Expr → Bool) (F : Facts) (e : Expr) : Option Expr :=
  match normE O e with
  | some e1 => simpE nodeEq F e1
  | none => none

/-- predicates (`assert`s): normalised, folded, and the ones that became `True` are dropped
    (`Cursor_Rewrite.map_proc`, LoopIR_scheduling.py:73) -/
def simplifyPreds (O : Oracle) (nodeEq : Expr → Expr → Bool) (ps : List Expr) : Option (List Expr) :=
  (mapMOpt (simplifyE O nodeEq []) ps)

/-! ## reference semantics of the statement layer: the trace of observed index tuples -/

abbrev Trace := List (List Int)

def iter (f : Int → CfgSt → Trace × CfgSt) : Nat → Int → CfgSt → Trace × CfgSt
  | 0, _, σ => ([], σ)
  | n + 1, k, σ =>
    let p := f k σ
    let q := iter f n (k + 1) p.2
    (p.1 ++ q.1, q.2)

def setSym (r : Sym → Int) (i : Sym) (v : Int) : Sym → Int := fun s => if s = i then v else r s

def setCfg (σ : CfgSt) (c f : String) (v : Int) : CfgSt :=
  fun c' f' => if c' = c ∧ f' = f then v else σ c' f'

mutual
def execS : Stmt → (Sym → Int) → CfgSt → Trace × CfgSt
  | .obs es, r, σ => ([es.map (eval ⟨r, σ⟩)], σ)
  | .wcfg c f e, r, σ => ([], setCfg σ c f (eval ⟨r, σ⟩ e))
  | .ite c t e, r, σ => if eval ⟨r, σ⟩ c ≠ 0 then execB t r σ else execB e r σ
  | .loop i lo hi b, r, σ =>
    iter (fun v σ' => execB b (setSym r i v) σ')
      (eval ⟨r, σ⟩ hi - eval ⟨r, σ⟩ lo).toNat (eval ⟨r, σ⟩ lo) σ
  | .pass, _, σ => ([], σ)
def execB : Block → (Sym → Int) → CfgSt → Trace × CfgSt
  | .nil, _, σ => ([], σ)
  | .cons s b, r, σ =>
    let p := execS s r σ
    let q := execB b r p.2
    (p.1 ++ q.1, q.2)
end

end Exo.Simplify
