/-
  ExoModel/ProcEqv.lean — literal, executable model of  src/exo/core/proc_eqv.py

  What is mirrored (line numbers of proc_eqv.py at the audited commit):

  * `_UnionFind` (76-109): `lookup` is an insertion-ordered dict  proc ↦ parent  (`Dict`, an
    association list in insertion order; `dget` = `lookup[v]`, `dset` = `lookup[v] = p`, which keeps
    the position of an existing key and appends a new one).  `new_node`, `find` with the *path
    splitting* loop exactly as written (`lookup[val] = grandparent; val, parent = parent, grandparent`),
    `union` (find val1, then find val2, then `lookup[p2] = p1` — the root of the FIRST argument
    survives, no rank/size heuristic), `check_eqv`, `copy_entire_UF` (re-inserts every item, in order,
    into an empty dict).
  * module globals `_UF_Unv`, `_UF_Strict`, `_UF_Unv_key` (112-114) = the three components of `State`;
    `_UF_Unv_key` is an insertion-ordered dict  field ↦ union-find, created on first mention by
    `new_uf_by_eqv_key` as a copy of `_UF_Unv`.
  * `decl_new_proc`, `derive_proc`, `assert_eqv_proc`, `check_eqv_proc` (with the early exit on
    `_UF_Unv` and the short-circuiting `all(...)`), `get_strictest_eqv_proc` (no short circuit),
    `get_repr_proc`.
  * exceptions: `lookup[v]` of a never-declared proc raises `KeyError`; the exception leaves every
    mutation done so far in place (keys created by `assert_eqv_proc`, path splitting done by an
    earlier `find`).  `Out.error .keyError` models this, and the returned state is the partially
    mutated one.

  What is NOT in Python (ghost, excluded from every compared output):

  * `UF.links` — number of link operations (`lookup[p2] = p1`) performed on this union-find (copied
    by `copy`).  `find` runs its loop with fuel `links + 1`; `Props/C11.lean` proves that in every
    reachable state the fuel is never exhausted (`Err.fuel` never comes out), from an acyclicity
    invariant with a rank function bounded by `links`.  Python's `while` has no such bound; the
    theorem is what justifies modelling it by a fuelled loop.

  Modelling decisions:
  * procedures are `Nat` ids (Python: object identity; `LoopIR.proc.__hash__` is `id(self)` so the
    `WeakKeyDictionary` is identity keyed); config fields are `Nat` keys from an infinite universe.
  * a `config_set` (a `frozenset`) is given as the list of its elements *in Python's iteration
    order*; only `assert_eqv_proc` iterates it (order in which new keys are created), everything
    else only tests membership.
  * weak references: a garbage-collected proc disappears from `lookup`; it cannot be mentioned by
    any later call, and union-find links only ever point to roots-at-the-time, so this is not
    observable.  Not modelled.
-/
namespace Exo.ProcEqv

abbrev Proc := Nat
abbrev Field := Nat

inductive Err where
  | keyError   -- Python `KeyError` (proc never declared)
  | fuel       -- model artefact (fuel of `find` exhausted); proved unreachable
  deriving DecidableEq, Repr

/-! ### insertion-ordered dict  proc ↦ proc -/

abbrev Dict := List (Proc × Proc)

/-- `m[x]` (`none` = KeyError) -/
def dget : Dict → Proc → Option Proc
  | [], _ => none
  | (k, v) :: m, x => if x = k then some v else dget m x

/-- `m[k] = v` : overwrite in place, or append -/
def dset : Dict → Proc → Proc → Dict
  | [], k, v => [(k, v)]
  | (k', v') :: m, k, v => if k = k' then (k', v) :: m else (k', v') :: dset m k v

/-! ### `_UnionFind` -/

structure UF where
  lookup : Dict
  links : Nat          -- ghost: number of `lookup[p2] = p1` link steps so far
  deriving Repr

def UF.empty : UF := ⟨[], 0⟩

/-- `new_node` -/
def UF.newNode (u : UF) (v : Proc) : UF :=
  match dget u.lookup v with
  | some _ => u
  | none => { u with lookup := dset u.lookup v v }

/-- the `while val is not parent` loop of `find`; `parent` is `lookup[val]` on entry -/
def findLoop : Nat → Dict → Proc → Proc → Except Err Proc × Dict
  | 0, m, _, _ => (.error .fuel, m)
  | fuel + 1, m, val, parent =>
    if val = parent then (.ok val, m)
    else
      match dget m parent with
      | none => (.error .keyError, m)
      | some grandparent => findLoop fuel (dset m val grandparent) parent grandparent

/-- `find` -/
def UF.find (u : UF) (val : Proc) : Except Err Proc × UF :=
  match dget u.lookup val with
  | none => (.error .keyError, u)
  | some parent =>
    let r := findLoop (u.links + 1) u.lookup val parent
    (r.1, { u with lookup := r.2 })

/-- `union` : `none` = returned normally -/
def UF.union (u : UF) (v1 v2 : Proc) : Option Err × UF :=
  let r1 := u.find v1
  match r1.1 with
  | .error e => (some e, r1.2)
  | .ok p1 =>
    let r2 := r1.2.find v2
    match r2.1 with
    | .error e => (some e, r2.2)
    | .ok p2 =>
      if p1 = p2 then (none, r2.2)
      else (none, { lookup := dset r2.2.lookup p2 p1, links := r2.2.links + 1 })

/-- `check_eqv` -/
def UF.checkEqv (u : UF) (v1 v2 : Proc) : Except Err Bool × UF :=
  let r1 := u.find v1
  match r1.1 with
  | .error e => (.error e, r1.2)
  | .ok p1 =>
    let r2 := r1.2.find v2
    match r2.1 with
    | .error e => (.error e, r2.2)
    | .ok p2 => (.ok (decide (p1 = p2)), r2.2)

/-- the loop of `copy_entire_UF` -/
def copyDict (m : Dict) : Dict := m.foldl (fun c kv => dset c kv.1 kv.2) []

/-- `copy_entire_UF` -/
def UF.copy (u : UF) : UF := { lookup := copyDict u.lookup, links := u.links }

/-! ### module state and API -/

abbrev KeyDict := List (Field × UF)

structure State where
  strict : UF          -- `_UF_Strict`
  unv : UF             -- `_UF_Unv`
  keys : KeyDict       -- `_UF_Unv_key` (insertion ordered)
  deriving Repr

def State.init : State := ⟨.empty, .empty, []⟩

/-- `key in _UF_Unv_key` -/
def hasKey (keys : KeyDict) (k : Field) : Bool := keys.any (fun e => e.1 == k)

/-- `decl_new_proc` -/
def declNewProc (s : State) (p : Proc) : State :=
  { strict := s.strict.newNode p
    unv := s.unv.newNode p
    keys := s.keys.map (fun e => (e.1, e.2.newNode p)) }

/-- first loop of `assert_eqv_proc`: `for key in config_set: if key not in _UF_Unv_key:
    new_uf_by_eqv_key(key)` -/
def addKeys (unv : UF) : List Field → KeyDict → KeyDict
  | [], keys => keys
  | k :: K, keys =>
    if hasKey keys k then addKeys unv K keys else addKeys unv K (keys ++ [(k, unv.copy)])

/-- last loop of `assert_eqv_proc`: `for key, uf in items: if key not in config_set: uf.union(..)`;
    an exception stops the loop -/
def unionKeys (K : List Field) (p1 p2 : Proc) : KeyDict → Option Err × KeyDict
  | [] => (none, [])
  | (k, u) :: rest =>
    if k ∈ K then
      let r := unionKeys K p1 p2 rest
      (r.1, (k, u) :: r.2)
    else
      let r := u.union p1 p2
      match r.1 with
      | some e => (some e, (k, r.2) :: rest)
      | none =>
        let r' := unionKeys K p1 p2 rest
        (r'.1, (k, r.2) :: r'.2)

/-- `assert_eqv_proc` -/
def assertEqv (s : State) (p1 p2 : Proc) (K : List Field) : Option Err × State :=
  let keys1 := addKeys s.unv K s.keys
  let rs := if K.isEmpty then s.strict.union p1 p2 else (none, s.strict)
  match rs.1 with
  | some e => (some e, { strict := rs.2, unv := s.unv, keys := keys1 })
  | none =>
    let ru := s.unv.union p1 p2
    match ru.1 with
    | some e => (some e, { strict := rs.2, unv := ru.2, keys := keys1 })
    | none =>
      let rk := unionKeys K p1 p2 keys1
      (rk.1, { strict := rs.2, unv := ru.2, keys := rk.2 })

/-- `derive_proc` -/
def deriveProc (s : State) (orig new : Proc) (K : List Field) : Option Err × State :=
  assertEqv (declNewProc s new) orig new K

/-- `all(uf.check_eqv(p1, p2) for key, uf in items if key not in config_set)` -/
def checkKeys (K : List Field) (p1 p2 : Proc) : KeyDict → Except Err Bool × KeyDict
  | [] => (.ok true, [])
  | (k, u) :: rest =>
    if k ∈ K then
      let r := checkKeys K p1 p2 rest
      (r.1, (k, u) :: r.2)
    else
      let r := u.checkEqv p1 p2
      match r.1 with
      | .error e => (.error e, (k, r.2) :: rest)
      | .ok false => (.ok false, (k, r.2) :: rest)
      | .ok true =>
        let r' := checkKeys K p1 p2 rest
        (r'.1, (k, r.2) :: r'.2)

/-- `check_eqv_proc` -/
def checkEqvProc (s : State) (p1 p2 : Proc) (K : List Field) : Except Err Bool × State :=
  let ru := s.unv.checkEqv p1 p2
  match ru.1 with
  | .error e => (.error e, { s with unv := ru.2 })
  | .ok false => (.ok false, { s with unv := ru.2 })
  | .ok true =>
    let rk := checkKeys K p1 p2 s.keys
    (rk.1, { s with unv := ru.2, keys := rk.2 })

/-- `{key for key, uf in items if not uf.check_eqv(p1, p2)}` (in dict order) -/
def strictKeys (p1 p2 : Proc) : KeyDict → Except Err (List Field) × KeyDict
  | [] => (.ok [], [])
  | (k, u) :: rest =>
    let r := u.checkEqv p1 p2
    match r.1 with
    | .error e => (.error e, (k, r.2) :: rest)
    | .ok b =>
      let r' := strictKeys p1 p2 rest
      (match r'.1 with
       | .error e => .error e
       | .ok ks => .ok (if b then ks else k :: ks),
       (k, r.2) :: r'.2)

/-- `get_strictest_eqv_proc` -/
def getStrictest (s : State) (p1 p2 : Proc) : Except Err (Bool × List Field) × State :=
  let ru := s.unv.checkEqv p1 p2
  match ru.1 with
  | .error e => (.error e, { s with unv := ru.2 })
  | .ok false => (.ok (false, []), { s with unv := ru.2 })
  | .ok true =>
    let rk := strictKeys p1 p2 s.keys
    (match rk.1 with
     | .error e => .error e
     | .ok ks => .ok (true, ks),
     { s with unv := ru.2, keys := rk.2 })

/-- `get_repr_proc` -/
def getRepr (s : State) (p : Proc) : Except Err Proc × State :=
  let r := s.strict.find p
  (r.1, { s with strict := r.2 })

/-! ### histories -/

inductive Op where
  | decl (p : Proc)
  | derive (orig new : Proc) (K : List Field)
  | assertEqv (p1 p2 : Proc) (K : List Field)
  | check (p1 p2 : Proc) (K : List Field)
  | strictest (p1 p2 : Proc)
  | repr (p : Proc)
  deriving Repr, DecidableEq

inductive Out where
  | unit                                     -- returned `None`
  | bool (b : Bool)                          -- `check_eqv_proc`
  | strictest (b : Bool) (ks : List Field)   -- `get_strictest_eqv_proc` (keys in dict order)
  | proc (p : Proc)                          -- `get_repr_proc`
  | error (e : Err)
  deriving Repr, DecidableEq

def outOfUnit : Option Err → Out
  | none => .unit
  | some e => .error e

def step (s : State) : Op → State × Out
  | .decl p => (declNewProc s p, .unit)
  | .derive o n K => let r := deriveProc s o n K; (r.2, outOfUnit r.1)
  | .assertEqv p q K => let r := assertEqv s p q K; (r.2, outOfUnit r.1)
  | .check p q K =>
    let r := checkEqvProc s p q K
    (r.2, match r.1 with | .ok b => .bool b | .error e => .error e)
  | .strictest p q =>
    let r := getStrictest s p q
    (r.2, match r.1 with | .ok (b, ks) => .strictest b ks | .error e => .error e)
  | .repr p =>
    let r := getRepr s p
    (r.2, match r.1 with | .ok q => .proc q | .error e => .error e)

/-- state after a history -/
def run (h : List Op) : State := h.foldl (fun s op => (step s op).1) State.init

/-- all outputs of a history, in order -/
def outs : State → List Op → List Out
  | _, [] => []
  | s, op :: h => let r := step s op; r.2 :: outs r.1 h

/-- the answer the module gives to a query issued after history `h` -/
def checkAfter (h : List Op) (p q : Proc) (K : List Field) : Out := (step (run h) (.check p q K)).2
def strictestAfter (h : List Op) (p q : Proc) : Out := (step (run h) (.strictest p q)).2
def reprAfter (h : List Op) (p : Proc) : Out := (step (run h) (.repr p)).2

end Exo.ProcEqv
