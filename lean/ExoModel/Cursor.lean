/-
  ExoModel.Cursor — executable mirror of `src/exo/core/internal_cursors.py`
  (paths, Node/Block/Gap cursors, the atomic tree edits and the forwarding function each of
  them returns).

  Trees are *labelled statement trees*: every node carries a lineage label (`update` keeps it,
  a freshly constructed node has a fresh one), a kind tag and the two statement blocks `body`
  and `orelse` (For: body; If: body/orelse; proc root: body; everything else: leaf).
  Expression children are not represented: an edit below a statement (`_child_node("rhs")._replace`)
  has `attr ∉ {body, orelse}` in `_local_forward`, so it never matches a statement path or a
  statement block and forwards every statement/block/gap cursor unchanged (`Edit.touch`).

  Everything is mirrored literally, quirks included (see docs/C06.md):
    * `Block._forward_move` shifts the gap path at the first difference even when that
      difference is above the moved block's own list;
    * `Block._forward_move` forwards a block cursor through its two end points (with the asserts);
    * `Node._forward_replace.fwd_node` sends every sibling index to the replaced node's index;
    * `Block._forward_replace` sends a block equal to the deleted range to an empty range.
  Python exceptions: `InvalidCursorError` ↦ `Err.invalid`, anything else (AssertionError,
  IndexError) ↦ `Err.crash`.
-/
namespace Exo.Cursor

inductive Attr | body | orelse
deriving DecidableEq, Repr, Inhabited

abbrev Step := Attr × Nat
abbrev Path := List Step

/-- labelled statement tree -/
inductive Tree where
  | mk (label kind : Nat) (body orelse : List Tree)
deriving Inhabited

namespace Tree

def label : Tree → Nat
  | mk l _ _ _ => l

def kind : Tree → Nat
  | mk _ k _ _ => k

/-- `getattr(node, attr)` -/
def children : Tree → Attr → List Tree
  | mk _ _ b _, .body => b
  | mk _ _ _ o, .orelse => o

/-- `node.update(**{attr: l})` — keeps label and kind -/
def setChildren : Tree → Attr → List Tree → Tree
  | mk l k _ o, .body, b => mk l k b o
  | mk l k b _, .orelse, o => mk l k b o

/-- `Node._node`: walk down a path (`none` = IndexError, the path dangles) -/
def get? : Tree → Path → Option Tree
  | t, [] => some t
  | t, (a, i) :: p =>
    match (t.children a)[i]? with
    | some c => c.get? p
    | none => none

/-- `Node._rewrite.impl`: `fn` returns a list (a single node is `[n]`) -/
def rewrite (fn : Tree → List Tree) : Tree → Path → List Tree
  | t, [] => fn t
  | t, (a, i) :: p =>
    match (t.children a)[i]? with
    | some c =>
      [t.setChildren a ((t.children a).take i ++ c.rewrite fn p ++ (t.children a).drop (i + 1))]
    | none => [t]   -- Python: IndexError (never happens for a valid cursor)

def rewriteRoot (t : Tree) (p : Path) (fn : Tree → List Tree) : Tree :=
  (t.rewrite fn p).headD t

end Tree

inductive GapType | before | after
deriving DecidableEq, Repr, Inhabited

inductive Cursor where
  | node (path : Path)
  | block (anchor : Path) (attr : Attr) (lo hi : Nat)   -- `_range = range(lo, hi)`
  | gap (anchor : Path) (ty : GapType)
deriving DecidableEq, Repr, Inhabited

inductive Err | invalid | crash
deriving DecidableEq, Repr, Inhabited

instance : DecidableEq (Except Err Cursor) := fun x y =>
  match x, y with
  | .ok a, .ok b => if h : a = b then isTrue (by rw [h]) else isFalse (fun h' => by cases h'; exact h rfl)
  | .error a, .error b => if h : a = b then isTrue (by rw [h]) else isFalse (fun h' => by cases h'; exact h rfl)
  | .ok _, .error _ => isFalse (fun h => by cases h)
  | .error _, .ok _ => isFalse (fun h => by cases h)

abbrev Fwd := Cursor → Except Err Cursor

/-- error-propagating composition: `_compose(f, g) = λx. f(g(x))` -/
def Fwd.comp (f g : Fwd) : Fwd := fun c =>
  match g c with
  | .ok c' => f c'
  | .error e => .error e

def Fwd.id : Fwd := fun c => .ok c

/-! ### path helpers -/

def parentPath (p : Path) : Path := p.dropLast

def lastAttr (p : Path) : Attr := match p.getLast? with | some (a, _) => a | none => .body

def lastIdx (p : Path) : Nat := match p.getLast? with | some (_, i) => i | none => 0

/-- `_starts_with(a, b)` -/
def startsWith (a b : Path) : Bool := b.isPrefixOf a

/-- `_is_sub_range(a, b)`; Python compares ranges as sequences (all empty ranges are equal) -/
def rangeEq (alo ahi blo bhi : Nat) : Bool :=
  (decide (ahi ≤ alo) && decide (bhi ≤ blo)) || (decide (alo = blo) && decide (ahi = bhi))

def isSubRange (alo ahi blo bhi : Nat) : Bool :=
  decide (alo ≥ blo) && decide (ahi ≤ bhi) && !(rangeEq alo ahi blo bhi)

/-- `_intersects_partially(a, b)` -/
def intersectsPartially (alo ahi blo bhi : Nat) : Bool :=
  (decide (alo < blo) && decide (blo < ahi) && decide (ahi < bhi)) ||
  (decide (blo < alo) && decide (alo < bhi) && decide (bhi < ahi))

/-! ### `_local_forward` -/

/-- result of a `fwd_block`: the extra edges below the edit path, then `(attr, range(lo, hi))` -/
abbrev BlockRes := Path × Attr × Nat × Nat

/-- the Node branch of `_local_forward.forward` -/
def lfNode (E : Path) (attr : Attr) (fwdNode : Attr → Nat → Except Err Path)
    (old : Path) : Except Err Path :=
  if old.length < E.length + 1 then .ok old            -- too shallow
  else
    match old[E.length]? with
    | none => .ok old
    | some (oldAttr, oldIdx) =>
      if ¬ (startsWith old E = true ∧ oldAttr = attr) then .ok old   -- different path down tree
      else
        match fwdNode attr oldIdx with
        | .ok r => .ok (old.take E.length ++ r ++ old.drop (E.length + 1))
        | .error e => .error e

def localForward (E : Path) (attr : Attr) (fwdNode : Attr → Nat → Except Err Path)
    (fwdBlock : Attr → Nat → Nat → Except Err BlockRes) : Fwd
  | .gap anchor ty =>
    match lfNode E attr fwdNode anchor with
    | .ok p => .ok (.gap p ty)
    | .error e => .error e
  | .node p =>
    match lfNode E attr fwdNode p with
    | .ok p' => .ok (.node p')
    | .error e => .error e
  | .block anchor a lo hi =>
    if anchor = E ∧ a = attr then
      -- block is directly in edit scope
      match fwdBlock attr lo hi with
      | .ok (pre, a', lo', hi') => .ok (.block (anchor ++ pre) a' lo' hi')
      | .error e => .error e
    else
      -- otherwise just forward the anchor
      match lfNode E attr fwdNode anchor with
      | .ok p => .ok (.block p a lo hi)
      | .error e => .error e

/-! ### `Gap._insert` -/

/-- `Gap._insertion_index` -/
def insertionIndex (anchor : Path) (ty : GapType) : Nat :=
  match ty with
  | .before => lastIdx anchor
  | .after => lastIdx anchor + 1

def insUpd (insIdx insLen i : Nat) : Nat := if i ≥ insIdx then i + insLen else i

/-- `Gap._forward_insert`; `idx_update(rng.stop - 1) + 1` is `0` for `rng.stop = 0` in Python
    (`-1 >= ins_idx` is false) -/
def forwardInsert (anchor : Path) (ty : GapType) (insLen : Nat) : Fwd :=
  let insIdx := insertionIndex anchor ty
  localForward (parentPath anchor) (lastAttr anchor)
    (fun a i => .ok [(a, insUpd insIdx insLen i)])
    (fun a lo hi =>
      .ok ([], a, insUpd insIdx insLen lo, if hi = 0 then 0 else insUpd insIdx insLen (hi - 1) + 1))

def insert (t : Tree) (anchor : Path) (ty : GapType) (stmts : List Tree) : Tree × Fwd :=
  let t' := t.rewriteRoot anchor (fun a =>
    match ty with
    | .before => stmts ++ [a]
    | .after => [a] ++ stmts)
  (t', forwardInsert anchor ty stmts.length)

/-! ### `Block._replace` / `Block._delete` -/

/-- `idx_update` of `_forward_replace`: `i + (n_ins - len(del)) * (i >= del.stop)` -/
def replUpd (lo hi nIns i : Nat) : Nat := if i ≥ hi then i + nIns - (hi - lo) else i

def forwardReplace (bp : Path) (a : Attr) (lo hi nIns : Nat) : Fwd :=
  localForward bp a
    (fun a i => if lo ≤ i ∧ i < hi then .error .invalid else .ok [(a, replUpd lo hi nIns i)])
    (fun a blo bhi =>
      if intersectsPartially blo bhi lo hi || isSubRange blo bhi lo hi then .error .invalid
      else .ok ([], a, replUpd lo hi nIns blo, replUpd lo hi nIns bhi))

/-- new child list of `Block._replace.update` -/
def replaceList (l : List Tree) (lo hi : Nat) (nodes emptyDefault : List Tree) : List Tree :=
  let nc := l.take lo ++ nodes ++ l.drop hi
  if nc.isEmpty then emptyDefault else nc

def replaceBlock (t : Tree) (bp : Path) (a : Attr) (lo hi : Nat) (nodes emptyDefault : List Tree) :
    Tree × Fwd :=
  let t' := t.rewriteRoot bp (fun n => [n.setChildren a (replaceList (n.children a) lo hi nodes emptyDefault)])
  (t', forwardReplace bp a lo hi nodes.length)

/-- `Block._delete`: replace by nothing, an emptied block becomes `[Pass]` -/
def deleteBlock (t : Tree) (bp : Path) (a : Attr) (lo hi : Nat) (pass : Tree) : Tree × Fwd :=
  replaceBlock t bp a lo hi [] [pass]

/-! ### `Block._wrap` -/

/-- `i - n_delta` with `n_delta = len(rng) - 1` -/
def wrapShift (lo hi i : Nat) : Nat := i + 1 - (hi - lo)

def forwardWrap (bp : Path) (a : Attr) (lo hi : Nat) (wrapAttr : Attr) : Fwd :=
  localForward bp a
    (fun a i =>
      if i ≥ hi then .ok [(a, wrapShift lo hi i)]
      else if i ≥ lo then .ok [(a, lo), (wrapAttr, i - lo)]
      else .ok [(a, i)])
    (fun a blo bhi =>
      if blo ≥ hi then .ok ([], a, wrapShift lo hi blo, wrapShift lo hi bhi)
      else if bhi ≤ lo then .ok ([], a, blo, bhi)
      else if (lo ≤ blo ∧ blo < hi) ∧ (bhi ≠ 0 ∧ lo ≤ bhi - 1 ∧ bhi - 1 < hi) then
        .ok ([(a, lo)], wrapAttr, blo - lo, bhi - lo)
      else if (blo ≤ lo ∧ lo < bhi) ∧ (hi ≠ 0 ∧ blo ≤ hi - 1 ∧ hi - 1 < bhi) then
        .ok ([], a, blo, bhi + 1 - (hi - lo))
      else .error .invalid)

def wrapList (l : List Tree) (lo hi : Nat) (ctor : List Tree → Tree) : List Tree :=
  l.take lo ++ [ctor ((l.drop lo).take (hi - lo))] ++ l.drop hi

def wrap (t : Tree) (bp : Path) (a : Attr) (lo hi : Nat) (ctor : List Tree → Tree) (wrapAttr : Attr) :
    Tree × Fwd :=
  let t' := t.rewriteRoot bp (fun n => [n.setChildren a (wrapList (n.children a) lo hi ctor)])
  (t', forwardWrap bp a lo hi wrapAttr)

/-- the hypothesis `_forward_wrap` relies on: the constructor puts the wrapped statements
    directly into the wrapper's `wrapAttr` block (`DoAddLoop(guard=True)` violates it: F16, recorded) -/
def WrapDirect (ctor : List Tree → Tree) (wrapAttr : Attr) : Prop :=
  ∀ nodes, (ctor nodes).children wrapAttr = nodes

/-! ### `Node._replace` (single node, not delegated to the block) -/

def forwardNodeReplace (p : Path) : Fwd :=
  localForward (parentPath p) (lastAttr p)
    (fun _ _ => .ok (match p.getLast? with | some s => [s] | none => []))
    (fun a lo hi => .ok ([], a, lo, hi))

def nodeReplace (t : Tree) (p : Path) (ast : Tree) : Tree × Fwd :=
  (t.rewriteRoot p (fun _ => [ast]), forwardNodeReplace p)

/-- an edit strictly below statement `p` (expression child): the spine is `update`d, no
    statement path and no statement block is in edit scope -/
def touch (t : Tree) (_p : Path) : Tree × Fwd := (t, Fwd.id)

/-! ### `Block._move` -/

/-- `_is_before(g, b)`: zip of the gap path (last index = insertion index) and the block start path -/
def isBeforeAux : Path → Path → Bool
  | (ga, gi) :: g, (ba, bi) :: b =>
    if ga ≠ ba then false
    else if gi ≠ bi then decide (gi < bi)
    else isBeforeAux g b
  | _, _ => true

/-- `gap_path` of `_move` / `_forward_move` -/
def gapPathOf (anchor : Path) (ty : GapType) : Path :=
  parentPath anchor ++ [(lastAttr anchor, insertionIndex anchor ty)]

/-- the `new_gap_path` loop of `_forward_move` -/
def newGapPath (editN : Nat) : Path → Path → Path
  | bs :: bsp, gs :: gp =>
    if bs ≠ gs then
      (if bs.1 = gs.1 ∧ bs.2 < gs.2 then (gs.1, gs.2 - editN) else gs) :: gp
    else gs :: newGapPath editN bsp gp
  | _, gp => gp

def setIdx (p : Path) (k : Nat) (f : Nat → Nat) : Path :=
  match p[k]? with
  | some (a, i) => p.set k (a, f i)
  | none => p

/-- `cur_n > n and path == cur_path[:n] and attr == cur_path[n][0]` (used for the block list with
    `path = block_path`, and for the gap list with `path = gap_path[:gap_n]`) -/
def throughTest (E : Path) (a : Attr) (cur : Path) : Bool :=
  decide (cur.length > E.length) && decide (E = cur.take E.length) &&
    decide (a = (cur.getD E.length (Attr.body, 0)).1)

/-- the Node branch of `_forward_move.forward` -/
def fwdMoveNode (bp : Path) (ba : Attr) (lo hi : Nat) (gapPath : Path) (cur : Path) : Path :=
  let blockN := bp.length
  let gapN := gapPath.length - 1
  let editN := hi - lo
  let curB : Step := cur.getD blockN (.body, 0)
  let throughBlock : Bool := throughTest bp ba cur
  if throughBlock && !(decide (hi ≤ curB.2)) && decide (lo ≤ curB.2) then
    -- inside the original block: move to the gap location
    let ngp := if blockN ≤ gapN then newGapPath editN (bp ++ [(ba, lo)]) gapPath else gapPath
    let last : Step := ngp.getLastD (.body, 0)
    ngp.dropLast ++ [(last.1, last.2 + (curB.2 - lo))] ++ cur.drop (blockN + 1)
  else
    let curG : Step := cur.getD gapN (.body, 0)
    let gapG : Step := gapPath.getD gapN (.body, 0)
    let afterGap : Bool := throughTest (gapPath.take gapN) gapG.1 cur && decide (gapG.2 ≤ curG.2)
    let cur1 := if throughBlock && decide (hi ≤ curB.2) then setIdx cur blockN (· - editN) else cur
    if afterGap then setIdx cur1 gapN (· + editN) else cur1

/-- `_forward_move.forward` -/
def forwardMove (bp : Path) (ba : Attr) (lo hi : Nat) (gapPath : Path) : Fwd
  | .node p => .ok (.node (fwdMoveNode bp ba lo hi gapPath p))
  | .gap anchor ty => .ok (.gap (fwdMoveNode bp ba lo hi gapPath anchor) ty)
  | .block anchor attr rlo rhi =>
    if anchor = bp ∧ attr = ba ∧ intersectsPartially rlo rhi lo hi = true then .error .invalid
    else
      -- `anchor._child_node(attr, rng.start)` / `(attr, rng.stop - 1)` (range-checked by the
      -- harness: only valid non-empty blocks are forwarded)
      let s := fwdMoveNode bp ba lo hi gapPath (anchor ++ [(attr, rlo)])
      let e := fwdMoveNode bp ba lo hi gapPath (anchor ++ [(attr, rhi - 1)])
      if s.dropLast ≠ e.dropLast then .error .crash          -- assert same parent
      else if lastAttr s ≠ lastAttr e then .error .crash     -- assert attr1 == attr2
      else if ¬ (lastIdx s ≤ lastIdx e) then .error .crash   -- assert new_start <= new_end
      else .ok (.block s.dropLast attr (lastIdx s) (lastIdx e + 1))   -- NB: `_attr` is kept

/-- `Block._move`.  `target in self` ⇒ `target = self.before()` -/
def move (t : Tree) (bp : Path) (ba : Attr) (lo hi : Nat) (gAnchor : Path) (gTy : GapType)
    (pass : Tree) : Tree × Fwd :=
  let inSelf : Bool :=
    decide (parentPath gAnchor = bp) && decide (gAnchor ≠ []) && decide (lastAttr gAnchor = ba) &&
    decide (lo ≤ lastIdx gAnchor) && decide (lastIdx gAnchor < hi)
  let (gAnchor, gTy) := if inSelf then (bp ++ [(ba, lo)], GapType.before) else (gAnchor, gTy)
  let nodes := match t.get? bp with
    | some n => ((n.children ba).drop lo).take (hi - lo)
    | none => []
  let gapPath := gapPathOf gAnchor gTy
  let t' :=
    if isBeforeAux gapPath (bp ++ [(ba, lo)]) then
      (insert (deleteBlock t bp ba lo hi pass).1 gAnchor gTy nodes).1
    else
      (deleteBlock (insert t gAnchor gTy nodes).1 bp ba lo hi pass).1
  (t', forwardMove bp ba lo hi gapPath)

/-! ### validity of cursors, enumeration (used by the driver and the theorems) -/

def ValidNode (t : Tree) (p : Path) : Prop := (t.get? p).isSome

/-- non-empty in-range block (what `lift_cursor` accepts) -/
def ValidBlock (t : Tree) (anchor : Path) (a : Attr) (lo hi : Nat) : Prop :=
  ∃ n, t.get? anchor = some n ∧ lo < hi ∧ hi ≤ (n.children a).length

def ValidCursor (t : Tree) : Cursor → Prop
  | .node p => ValidNode t p
  | .block anchor a lo hi => ValidBlock t anchor a lo hi
  | .gap anchor _ => anchor ≠ [] ∧ ValidNode t anchor

def validCursorB (t : Tree) : Cursor → Bool
  | .node p => (t.get? p).isSome
  | .block anchor a lo hi =>
    match t.get? anchor with
    | some n => decide (lo < hi) && decide (hi ≤ (n.children a).length)
    | none => false
  | .gap anchor _ => decide (anchor ≠ []) && (t.get? anchor).isSome

/-- label at a node cursor -/
def labelAt (t : Tree) (p : Path) : Option Nat := (t.get? p).map Tree.label

end Exo.Cursor
