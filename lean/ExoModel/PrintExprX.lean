/-
  ExoModel.PrintExprX — the expression level of `ExoModel.PrintStmt`: the expressions of
  `ExoModel.Print` (b) extended with the remaining atoms `_print_expr`
  (src/exo/core/LoopIR_pprint.py:480-519) can emit inside a statement:

    * `ReadConfig`  →  `Cfg.field`
    * `StrideExpr`  →  `stride(x, d)`      (syntactically the call form with callee `stride`)
    * `Extern`      →  `f(a, b, …)`        (e.g. `relu(x[i])`, `select(a, b, c, d)`)

  They are ATOMS for the precedence rules (like a variable with subscripts).  `XExpr` has the
  constructors of `PExpr` plus `cfg` and `call`; `stride(x, d)` is `call "stride" [x, d]` — the
  printed characters are the same (`f"stride({name}, {dim})"` vs `f"{f}({', '.join(args)})"`), and
  `pyparser.parse_expr` (:1691-1751) separates the two by the callee NAME after CPython has parsed
  a `Call` (`isStrideForm` below is its shape test).

  The statement tokens `STok` (expression tokens of `Exo.Print` + `: = += @ .` + keywords) are
  defined here because `.` and the keywords end an expression.  `ppX`/`ppXS` = printer as tokens /
  characters, `parseExprX`… = CPython's grammar + `parse_expr` on this language (the parser of
  `ExoModel.Print` with the three new `primary` forms `NAME '.' NAME`, `NAME '(' ')'`,
  `NAME '(' expr (',' expr)* ')'`), fuel-indexed; no Mathlib.
-/
import ExoModel.Print

namespace Exo.PrintStmt
open Exo Exo.Print

/-- tokens of a statement line: the expression tokens plus the statement punctuation/keywords -/
inductive STok
  | t (a : Tok)
  | colon | assign | pluseq | at | dot
  | kwFor | kwIn | kwIf | kwElse | kwPass | kwDef | kwAssert
deriving Repr, DecidableEq, Inhabited

/-- printable expressions, names resolved -/
inductive XExpr where
  | var (x : String) (idx : List XExpr)
  | const (neg : Bool) (mag : String)
  | neg (e : XExpr)
  | bin (op : BinOp) (l r : XExpr)
  /-- `ReadConfig`: `Cfg.field` -/
  | cfg (c f : String)
  /-- `Extern` call `f(args)`; `StrideExpr` is `call "stride" [var x [], const false d]` -/
  | call (f : String) (args : List XExpr)
deriving Repr, Inhabited

mutual
/-- `_print_expr(e, env, prec)` as a token list -/
def ppX : Nat → XExpr → List STok
  | _, .var x [] => [.t (.id x)]
  | _, .var x (i :: is) => .t (.id x) :: .t .lb :: (ppX 0 i ++ (ppTailX is ++ [.t .rb]))
  | _, .const false m => [.t (.num m)]
  | _, .const true m => [.t (.op .sub), .t (.num m)]
  | _, .neg e => .t (.op .sub) :: ppX precUSub e
  | p, .bin o l r =>
    if prec o < p then
      .t .lp :: (ppX (prec o) l ++ (.t (.op o) :: (ppX (prec o + 1) r ++ [.t .rp])))
    else ppX (prec o) l ++ (.t (.op o) :: ppX (prec o + 1) r)
  | _, .cfg c f => [.t (.id c), .dot, .t (.id f)]
  | _, .call f [] => [.t (.id f), .t .lp, .t .rp]
  | _, .call f (a :: as) => .t (.id f) :: .t .lp :: (ppX 0 a ++ (ppTailX as ++ [.t .rp]))
/-- `", ".join(...)` after the first element -/
def ppTailX : List XExpr → List STok
  | [] => []
  | e :: es => .t .comma :: (ppX 0 e ++ ppTailX es)
end

mutual
/-- `_print_expr(e, env, prec)`, the characters -/
def ppXS : Nat → XExpr → String
  | _, .var x [] => x
  | _, .var x (i :: is) => x ++ "[" ++ ppXS 0 i ++ ppTailXS is ++ "]"
  | _, .const false m => m
  | _, .const true m => "-" ++ m
  | _, .neg e => "-" ++ ppXS precUSub e
  | p, .bin o l r =>
    let s := ppXS (prec o) l ++ " " ++ opStr o ++ " " ++ ppXS (prec o + 1) r
    if prec o < p then "(" ++ s ++ ")" else s
  | _, .cfg c f => c ++ "." ++ f
  | _, .call f [] => f ++ "()"
  | _, .call f (a :: as) => f ++ "(" ++ ppXS 0 a ++ ppTailXS as ++ ")"
def ppTailXS : List XExpr → String
  | [] => ""
  | e :: es => ", " ++ ppXS 0 e ++ ppTailXS es
end

mutual
/-- what reading back yields: a negative literal `-3` is `USub(Const 3)` -/
def normX : XExpr → XExpr
  | .var x idx => .var x (normXL idx)
  | .const false m => .const false m
  | .const true m => .neg (.const false m)
  | .neg e => .neg (normX e)
  | .bin o l r => .bin o (normX l) (normX r)
  | .cfg c f => .cfg c f
  | .call f args => .call f (normXL args)
def normXL : List XExpr → List XExpr
  | [] => []
  | e :: es => normX e :: normXL es
end

/-- the shape `parse_expr` demands of a call whose callee is named `stride`: exactly a buffer
    name and an integer literal (anything else is a `ParseError`) -/
def isStrideForm : XExpr → Bool
  | .call "stride" [.var _ [], .const false _] => true
  | _ => false

/-- an operator at the front of the tokens -/
def opHead : List STok → Option (BinOp × List STok)
  | .t (.op o) :: ts => some (o, ts)
  | _ => none

mutual
/-- an expression all of whose unparenthesised binary operators have precedence ≥ `m` -/
def parseExprX : Nat → Nat → List STok → Option (XExpr × List STok)
  | 0, _, _ => none
  | f + 1, m, ts =>
    match parseUnaryX f ts with
    | none => none
    | some (a, r) => parseLoopX f m a none r
/-- Python's `factor`: `'-' factor | atom trailer*` with the trailers `[…]`, `.NAME`, `(…)`
    directly after a NAME -/
def parseUnaryX : Nat → List STok → Option (XExpr × List STok)
  | 0, _ => none
  | f + 1, .t (.op .sub) :: ts =>
    match parseUnaryX f ts with
    | none => none
    | some (a, r) => some (.neg a, r)
  | f + 1, .t .lp :: ts =>
    match parseExprX f 0 ts with
    | some (a, .t .rp :: r) => some (a, r)
    | _ => none
  | _ + 1, .t (.num s) :: ts => some (.const false s, ts)
  | f + 1, .t (.id x) :: ts =>
    match ts with
    | .t .lb :: ts' =>
      match parseExprX f 0 ts' with
      | none => none
      | some (a, r) =>
        match parseTailX f r with
        | some (as, .t .rb :: r') => some (.var x (a :: as), r')
        | _ => none
    | .dot :: .t (.id fld) :: ts' => some (.cfg x fld, ts')
    | .t .lp :: .t .rp :: ts' => some (.call x [], ts')
    | .t .lp :: ts' =>
      match parseExprX f 0 ts' with
      | none => none
      | some (a, r) =>
        match parseTailX f r with
        | some (as, .t .rp :: r') => some (.call x (a :: as), r')
        | _ => none
    | _ => some (.var x [], ts)
  | _ + 1, _ => none
/-- the remaining subscripts / arguments `, e`* -/
def parseTailX : Nat → List STok → Option (List XExpr × List STok)
  | 0, _ => none
  | f + 1, .t .comma :: ts =>
    match parseExprX f 0 ts with
    | none => none
    | some (a, r) =>
      match parseTailX f r with
      | none => none
      | some (as, r') => some (a :: as, r')
  | _ + 1, ts => some ([], ts)
/-- operator loop with the comparison-chain state (see `Exo.Print.parseLoop`) -/
def parseLoopX : Nat → Nat → XExpr → Option XExpr → List STok → Option (XExpr × List STok)
  | 0, _, _, _, _ => none
  | f + 1, m, lhs, chain, ts =>
    match opHead ts with
    | none => some (lhs, ts)
    | some (o, ts') =>
      if m ≤ prec o then
        match parseExprX f (prec o + 1) ts' with
        | none => none
        | some (rhs, r) =>
          if isCmp o then
            match chain with
            | none => parseLoopX f m (.bin o lhs rhs) (some rhs) r
            | some last => parseLoopX f m (.bin .and lhs (.bin o last rhs)) (some rhs) r
          else parseLoopX f m (.bin o lhs rhs) none r
      else some (lhs, ts)
end

/-- fuel that `parse_print_x` shows sufficient -/
def fuelX (ts : List STok) : Nat := 4 * ts.length + 4

/-- parse a complete token list -/
def parseX (ts : List STok) : Option XExpr :=
  match parseExprX (fuelX ts) 0 ts with
  | some (e, []) => some e
  | _ => none

mutual
/-- the expressions of `ExoModel.Print` are the extended expressions without the new atoms -/
def ofPExpr : PExpr → XExpr
  | .var x idx => .var x (ofPExprL idx)
  | .const n m => .const n m
  | .neg e => .neg (ofPExpr e)
  | .bin o l r => .bin o (ofPExpr l) (ofPExpr r)
def ofPExprL : List PExpr → List XExpr
  | [] => []
  | e :: es => ofPExpr e :: ofPExprL es
end

end Exo.PrintStmt
