/-
  ExoModel.Wire — JSON reader for the LoopIR export produced by harness/export_ir.py and
  JSON printer of run results.  Not part of any proof (parsers are `partial`); tied by use.
-/
import Lean.Data.Json
import ExoModel.Sem

namespace Exo.Wire
open Lean

abbrev P := Except String

def arr (j : Json) : P (Array Json) :=
  match j with
  | .arr a => pure a
  | _ => throw s!"expected array, got {j.compress.take 80}"

def str (j : Json) : P String :=
  match j with
  | .str s => pure s
  | _ => throw s!"expected string, got {j.compress.take 80}"

def int (j : Json) : P Int :=
  match j.getInt? with
  | .ok n => pure n
  | .error _ => throw s!"expected int, got {j.compress.take 80}"

def nat (j : Json) : P Nat := do
  let n ← int j
  if n < 0 then throw "expected nat" else pure n.toNat

def bool (j : Json) : P Bool :=
  match j with
  | .bool b => pure b
  | _ => throw s!"expected bool, got {j.compress.take 80}"

def fld (j : Json) (k : String) : P Json :=
  match j.getObjVal? k with
  | .ok v => pure v
  | .error _ => throw s!"missing field {k} in {j.compress.take 80}"

def sym (j : Json) : P Sym := do
  let a ← arr j
  if a.size ≠ 2 then throw "sym: expected [name,id]"
  pure ⟨← str a[0]!, ← nat a[1]!⟩

def binop (s : String) : P BinOp :=
  match s with
  | "+" => pure .add | "-" => pure .sub | "*" => pure .mul | "/" => pure .div | "%" => pure .mod
  | "<" => pure .lt | ">" => pure .gt | "<=" => pure .le | ">=" => pure .ge | "==" => pure .eq
  | "and" => pure .and | "or" => pure .or
  | _ => throw s!"bad binop {s}"

mutual
partial def expr (j : Json) : P Expr := do
  let a ← arr j
  let tag ← str a[0]!
  match tag with
  | "read" => pure (.read (← sym a[1]!) (← exprs a[2]!))
  | "int" => pure (.lit (.int (← int a[1]!)))
  | "bool" => pure (.lit (.bool (← bool a[1]!)))
  | "data" => pure (.lit (.data (← int a[1]!) (← nat a[2]!)))
  | "usub" => pure (.usub (← expr a[1]!))
  | "binop" => pure (.binop (← binop (← str a[1]!)) (← expr a[2]!) (← expr a[3]!))
  | "extern" => pure (.extern (← str a[1]!) (← exprs a[2]!))
  | "win" => do
      let accs ← (← arr a[2]!).toList.mapM wacc
      pure (.win (← sym a[1]!) accs)
  | "stride" => pure (.stride (← sym a[1]!) (← nat a[2]!))
  | "readcfg" => pure (.readcfg (← str a[1]!) (← str a[2]!))
  | t => throw s!"bad expr tag {t}"
partial def exprs (j : Json) : P (List Expr) := do
  (← arr j).toList.mapM expr
partial def wacc (j : Json) : P WAcc := do
  let a ← arr j
  match ← str a[0]! with
  | "pt" => pure (.point (← expr a[1]!))
  | "iv" => pure (.interval (← expr a[1]!) (← expr a[2]!))
  | t => throw s!"bad w_access tag {t}"
end

def ctrlKind (s : String) : P CtrlKind :=
  match s with
  | "size" => pure .size | "index" => pure .index | "int" => pure .int | "bool" => pure .bool
  | "stride" => pure .stride
  | _ => throw s!"bad ctrl kind {s}"

def argTy (j : Json) : P ArgTy := do
  let a ← arr j
  match ← str a[0]! with
  | "ctrl" => pure (.ctrl (← ctrlKind (← str a[1]!)))
  | "scalar" => pure .scalar
  | "tensor" => pure (.tensor (← exprs a[1]!) (← bool a[2]!))
  | t => throw s!"bad arg type {t}"

mutual
partial def stmt (j : Json) : P Stmt := do
  let a ← arr j
  match ← str a[0]! with
  | "assign" => pure (.assign (← sym a[1]!) (← exprs a[2]!) (← expr a[3]!))
  | "reduce" => pure (.reduce (← sym a[1]!) (← exprs a[2]!) (← expr a[3]!))
  | "writecfg" => pure (.writecfg (← str a[1]!) (← str a[2]!) (← expr a[3]!) (← bool a[4]!))
  | "pass" => pure .pass
  | "if" => pure (.ite (← expr a[1]!) (← stmts a[2]!) (← stmts a[3]!))
  | "for" => pure (.loop (← sym a[1]!) (← expr a[2]!) (← expr a[3]!) (← stmts a[4]!) (← bool a[5]!))
  | "alloc" => pure (.alloc (← sym a[1]!) (← exprs a[2]!))
  | "free" => pure (.free (← sym a[1]!))
  | "call" => pure (.call (← proc a[1]!) (← exprs a[2]!))
  | "window" => pure (.window (← sym a[1]!) (← expr a[2]!))
  | t => throw s!"bad stmt tag {t}"
partial def stmts (j : Json) : P (List Stmt) := do
  (← arr j).toList.mapM stmt
partial def proc (j : Json) : P Proc := do
  let name ← str (← fld j "name")
  let args ← (← arr (← fld j "args")).toList.mapM (fun a => do
    let p ← arr a
    pure (⟨← sym p[0]!, ← argTy p[1]!⟩ : FnArg))
  let preds ← exprs (← fld j "preds")
  let body ← stmts (← fld j "body")
  pure (.mk name args preds body)
end

/-- rationals travel as "p/q" strings or plain integers; `null` = uninitialised -/
def ratOfJson (j : Json) : P (Option Rat) :=
  match j with
  | .null => pure none
  | .str s =>
    match s.splitOn "/" with
    | [p] => match p.toInt? with
        | some n => pure (some (n : Rat))
        | none => throw s!"bad rational {s}"
    | [p, q] => match p.toInt?, q.toNat? with
        | some n, some d => pure (some ((n : Rat) / (d : Rat)))
        | _, _ => throw s!"bad rational {s}"
    | _ => throw s!"bad rational {s}"
  | _ => match j.getInt? with
    | .ok n => pure (some (n : Rat))
    | .error _ => throw s!"bad rational {j.compress}"

def ratToJson : Option Rat → Json
  | none => .null
  | some r => if r.den = 1 then .str (toString r.num) else .str s!"{r.num}/{r.den}"

end Exo.Wire
