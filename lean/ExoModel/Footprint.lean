/-
  ExoModel.Footprint — the dynamic footprint of executing a statement (list) from a state: the
  sequence of events "heap cell read / written (with the value) / reduced into (with the addend),
  configuration field read / written (with the value)", defined by recursion over the program with
  the reference semantics (ExoModel.Sem) as the oracle for intermediate states — there is no
  second interpreter whose agreement with `execL` would have to be proved.

  * reads are ALL cells an evaluation looks at (not only the upward-exposed ones; a cell that a
    fragment writes cannot be touched by a commuting fragment anyway, so for the commutation side
    condition the two notions coincide); for a failing run the events up to the failure, with the
    reads of the failing expression over-approximated syntactically
  * a `reduce` is its own kind of event (it does not count as a read or a write): two fragments that
    only reduce into a cell commute (`DataLaws`: addition is commutative and associative)
  * cells of buffers allocated inside the fragment have ids `≥ σ.heap.length`; `visible` drops them
  * `commutesB` is the executable side condition of `reorder_stmts` (DESIGN §3 C01 `Commute a b`):
    `W₁∩All₂ = W₂∩All₁ = Red₁∩(R₂∪W₂) = Red₂∩(R₁∪W₁) = ∅`, same for configuration fields
-/
import ExoModel.Sem

namespace Exo.Fp
open Exo

abbrev Cell := Nat × Nat
abbrev Key := String × String

inductive Ev (V : Type) where
  | rd (c : Cell)
  | wr (c : Cell) (v : Option V)
  | red (c : Cell) (v : Option V)
  | crd (k : Key)
  | cwr (k : Key) (v : CfgVal V)

variable {V : Type}

/-! ### configuration fields a control / view expression may read (syntactic) -/

def cfgC : Expr → List Key
  | .usub e => cfgC e
  | .binop _ a b => cfgC a ++ cfgC b
  | .readcfg c f => [(c, f)]
  | _ => []

def cfgCs : List Expr → List Key
  | [] => []
  | e :: r => cfgC e ++ cfgCs r

def cfgW : WAcc → List Key
  | .interval lo hi => cfgC lo ++ cfgC hi
  | .point e => cfgC e

def cfgWs : List WAcc → List Key
  | [] => []
  | w :: r => cfgW w ++ cfgWs r

def cfgView : Expr → List Key
  | .read _ idx => cfgCs idx
  | .win _ acc => cfgWs acc
  | _ => []

def cfgArgs : List Expr → List Key
  | [] => []
  | a :: r => cfgC a ++ cfgView a ++ cfgArgs r

def cfgShapes : List FnArg → List Key
  | [] => []
  | ⟨_, .tensor shape _⟩ :: r => cfgCs shape ++ cfgShapes r
  | _ :: r => cfgShapes r

def crds (ks : List Key) : List (Ev V) := ks.map Ev.crd

/-- events of the continuation, if the step succeeded -/
def onOk {α : Type} (r : Except Err α) (f : α → List (Ev V)) : List (Ev V) :=
  match r with
  | .ok a => f a
  | .error _ => []

/-- the cell `x[idx]` denotes (what `writeCell` and a data read compute before touching it) -/
def target (σ : State V) (x : Sym) (idx : List Expr) : Except Err Cell :=
  match lookupSym x σ.views with
  | some v => do
      let is ← evalCs σ idx
      cellOf σ.heap v is
  | none => throw .scope

mutual
/-- events of evaluating a data expression -/
def evD (σ : State V) : Expr → List (Ev V)
  | .read x idx => crds (cfgCs idx) ++ onOk (target σ x idx) (fun c => [Ev.rd c])
  | .usub e => evD σ e
  | .binop _ a b => evD σ a ++ evD σ b
  | .extern _ args => evDs σ args
  | .readcfg c f => [Ev.crd (c, f)]
  | _ => []
def evDs (σ : State V) : List Expr → List (Ev V)
  | [] => []
  | e :: r => evD σ e ++ evDs σ r
end

/-- events of a loop: `g` gives the events of one iteration, `f` is the step function -/
def evIter (g : Int → State V → List (Ev V)) (f : Int → State V → Except Err (State V)) :
    Nat → Int → State V → List (Ev V)
  | 0, _, _ => []
  | n + 1, lo, σ => g lo σ ++ onOk (f lo σ) (evIter g f n (lo + 1))

section
variable [DataAlg V] (ext : String → List V → V)

mutual
def evS : Stmt → State V → List (Ev V)
  | .assign x idx rhs, σ =>
      evD σ rhs ++ crds (cfgCs idx) ++
        onOk (evalD ext σ rhs) (fun v => onOk (target σ x idx) (fun c => [Ev.wr c v]))
  | .reduce x idx rhs, σ =>
      evD σ rhs ++ crds (cfgCs idx) ++
        onOk (evalD ext σ rhs) (fun v => onOk (target σ x idx) (fun c => [Ev.red c v]))
  | .writecfg c f rhs isData, σ =>
      if isData then evD σ rhs ++ onOk (evalD ext σ rhs) (fun v => [Ev.cwr (c, f) (.data v)])
      else crds (cfgC rhs) ++ onOk (evalC σ rhs) (fun v => [Ev.cwr (c, f) (.ctrl v)])
  | .pass, _ => []
  | .ite c t e, σ =>
      crds (cfgC c) ++ onOk (evalC σ c) (fun b => if b ≠ 0 then evL t σ else evL e σ)
  | .loop i lo hi body _, σ =>
      crds (cfgC lo ++ cfgC hi) ++
        onOk (evalC σ lo) (fun l => onOk (evalC σ hi) (fun h =>
          if h < l then [] else
            evIter (fun v s => evL body (s.bind i v))
              (fun v s => (execL ext body (s.bind i v)).map (State.leave s)) (h - l).toNat l σ))
  | .alloc _ shape, _ => crds (cfgCs shape)
  | .free _, _ => []
  | .call f args, σ => evP f args σ
  | .window _ rhs, _ => crds (cfgView rhs)
def evL : List Stmt → State V → List (Ev V)
  | [], _ => []
  | s :: r, σ => evS s σ ++ onOk (execS ext s σ) (evL r)
def evP : Proc → List Expr → State V → List (Ev V)
  | .mk _ fargs preds body, args, σ =>
      crds (cfgArgs args) ++ crds (cfgShapes fargs ++ cfgCs preds) ++
        onOk (bindArgs σ fargs args [] []) (fun cecv =>
          if !noAlias cecv.2 then [] else
            let σc : State V := { env := cecv.1, views := cecv.2, heap := σ.heap, cfg := σ.cfg }
            onOk (checkShapes σc fargs) (fun _ => onOk (checkPreds σc preds) (fun _ => evL body σc)))
end

end

/-! ### projections of an event list -/

def reads (t : List (Ev V)) : List Cell := t.filterMap (fun e => match e with | .rd c => some c | _ => none)
def writes (t : List (Ev V)) : List Cell := t.filterMap (fun e => match e with | .wr c _ => some c | _ => none)
def reduces (t : List (Ev V)) : List Cell := t.filterMap (fun e => match e with | .red c _ => some c | _ => none)
def cfgReads (t : List (Ev V)) : List Key := t.filterMap (fun e => match e with | .crd k => some k | _ => none)
def cfgWrites (t : List (Ev V)) : List Key := t.filterMap (fun e => match e with | .cwr k _ => some k | _ => none)

/-- events on buffers that exist outside the fragment (`n` = heap length on entry) -/
def Ev.vis (n : Nat) : Ev V → Bool
  | .rd c => decide (c.1 < n)
  | .wr c _ => decide (c.1 < n)
  | .red c _ => decide (c.1 < n)
  | _ => true

def visible (n : Nat) (t : List (Ev V)) : List (Ev V) := t.filter (Ev.vis n)

def disj {α : Type} [DecidableEq α] (l₁ l₂ : List α) : Bool := l₁.all (fun c => !l₂.contains c)

/-- one direction of the commutation condition: what `a` modifies against what `b` touches -/
def modsAvoid (ta tb : List (Ev V)) : Bool :=
  disj (writes ta) (reads tb ++ writes tb ++ reduces tb) &&
  disj (reduces ta) (reads tb ++ writes tb) &&
  disj (cfgWrites ta) (cfgReads tb ++ cfgWrites tb)

/-- the side condition of `reorder_stmts` on two footprints taken in the same state -/
def commutesB (ta tb : List (Ev V)) : Bool := modsAvoid ta tb && modsAvoid tb ta

/-- every configuration field written by the fragment already has a value -/
def cfgBound (cfg : List (Key × CfgVal V)) (t : List (Ev V)) : Bool :=
  (cfgWrites t).all (fun k => (lookupCfg k cfg).isSome)

section
variable [DataAlg V] (ext : String → List V → V)

/-- footprint of a block in a state: events on the buffers and fields the environment can see -/
def footprint (ss : List Stmt) (σ : State V) : List (Ev V) := visible σ.heap.length (evL ext ss σ)

/-- `Commute A B` in state `σ` (executable) -/
def commuteAt (A B : List Stmt) (σ : State V) : Bool :=
  commutesB (footprint ext A σ) (footprint ext B σ) &&
  cfgBound σ.cfg (footprint ext A σ) && cfgBound σ.cfg (footprint ext B σ)

end

end Exo.Fp
