/-
  ExoModel.RewriteMore — shapes of further loop rewrites (same conventions as ExoModel.Rewrite:
  what `Do<Name>` of src/exo/rewrite/LoopIR_scheduling.py builds once its checks have passed).
-/
import ExoModel.Rewrite

namespace Exo.Rw
open Exo

/-- `mult_loops` (`DoProductLoop`): a loop from 0 whose body is exactly one loop from 0 to an
    integer literal `c` becomes one loop over the fresh iterator `k` up to `hi * c`; in the body
    the outer iterator is replaced by `k / c`, then the inner one by `k % c` (the order of the two
    `_replace_reads` passes).  The new loop keeps the outer loop's node (its `par` flag). -/
def multLoops (k : Sym) : Local
  | .loop i (.lit (.int 0)) hi [.loop j (.lit (.int 0)) (.lit (.int c)) b _] par :: r =>
    some (.loop k (.lit (.int 0)) (.binop .mul hi (.lit (.int c)))
      (substL j (.binop .mod (.read k []) (.lit (.int c)))
        (substL i (.binop .div (.read k []) (.lit (.int c))) b)) par :: r)
  | _ => none

/-! ### lift_scope (`DoLiftScope`): the shapes other than for-in-for (= `reorderLoops`)

  Mirrors the Python literally, including what it does when a branch is empty: the wrapper is
  applied to the inner `orelse` only `if inner_s.orelse:`. -/

/-- `if` directly in the `then` block of an `if`:
    `if a: (if b: A else: B) else: C`  ↦  `if b: (if a: A else: C) else: (if a: B else: C)`,
    the new `else` block being EMPTY when `B` is empty -/
def liftIfThen : Local
  | .ite a [.ite b A B] C :: r =>
    some (.ite b [.ite a A C] (if B.isEmpty then [] else [.ite a B C]) :: r)
  | _ => none

/-- `if` directly in the `else` block of an `if`:
    `if a: A else: (if b: B else: C)`  ↦  `if b: (if a: A else: B) else: (if a: A else: C)`,
    the new `else` block being EMPTY when `C` is empty -/
def liftIfElse : Local
  | .ite a A [.ite b B C] :: r =>
    some (.ite b [.ite a A B] (if C.isEmpty then [] else [.ite a A C]) :: r)
  | _ => none

/-- `for` directly in an `if` without `else`:  `if c: for i: A`  ↦  `for i: if c: A` -/
def liftForOutOfIf : Local
  | .ite c [.loop i lo hi A par] [] :: r => some (.loop i lo hi [.ite c A []] par :: r)
  | _ => none

/-- `if` directly in a `for`:  `for i: (if c: A else: B)`  ↦  `if c: (for i: A) else: (for i: B)`,
    no `else` block when `B` is empty -/
def liftIfOutOfLoop : Local
  | .loop i lo hi [.ite c A B] par :: r =>
    some (.ite c [.loop i lo hi A par] (if B.isEmpty then [] else [.loop i lo hi B par]) :: r)
  | _ => none

end Exo.Rw
