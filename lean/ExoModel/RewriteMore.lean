/-
  ExoModel.RewriteMore — shapes of further loop rewrites (same conventions as ExoModel.Rewrite:
  what `Do<Name>` of src/exo/rewrite/LoopIR_scheduling.py builds once its checks have passed).
-/
import ExoModel.Rewrite

namespace Exo.Rw
open Exo

/-- `mult_loops` (`DoProductLoop`): a loop from 0 whose body is exactly one loop from 0 to an
    integer literal `c` becomes one loop over the fresh iterator `k` up to `hi * c`; in the body
    the outer iterator is replaced by `k / c`, then the inner one by `k % c` (the order of the two
    `_replace_reads` passes).  The new loop keeps the outer loop's node (its `par` flag). -/
def multLoops (k : Sym) : Local
  | .loop i (.lit (.int 0)) hi [.loop j (.lit (.int 0)) (.lit (.int c)) b _] par :: r =>
    some (.loop k (.lit (.int 0)) (.binop .mul hi (.lit (.int c)))
      (substL j (.binop .mod (.read k []) (.lit (.int c)))
        (substL i (.binop .div (.read k []) (.lit (.int c))) b)) par :: r)
  | _ => none

end Exo.Rw
