/-
  ExoModel.FootprintAt — the states in which control reaches an addressed statement (one per
  dynamic visit: every iteration of the enclosing loops), and the commutation side condition of
  `reorder_stmts` (`Fp.commuteAt`) evaluated in each of them.  Executable counterpart of the
  hypothesis `∀ σ, Reach … σ → commuteAt ext [a] [b] σ` of `C01S.reorder_stmts_in_context`; used by
  the driver op `commute` (tie B for `Check_ReorderStmts`).
-/
import ExoModel.Footprint
import ExoModel.RwCheck

namespace Exo.Fp
open Exo

variable {V : Type}

/-- `alloc` / window statements (they introduce a name into the enclosing scope) -/
def isDefS : Stmt → Bool
  | .alloc _ _ => true
  | .window _ _ => true
  | _ => false

def visitIter (f : State V → List (State V)) (i : Sym)
    (step : Int → State V → Except Err (State V)) : Nat → Int → State V → List (State V)
  | 0, _, _ => []
  | n + 1, lo, σ =>
    f (σ.bind i lo) ++
      (match step lo σ with
       | .ok σ' => visitIter f i step n (lo + 1) σ'
       | .error _ => [])

section
variable [DataAlg V] (ext : String → List V → V)

/-- states in which the statement addressed by `path` is about to run, when `ss` is run from `σ`
    (in order; the run stops at the first error) -/
def visits : Rw.Path → List Stmt → State V → List (State V)
  | [], _, _ => []
  | [st], ss, σ =>
    match execL ext (ss.take st.idx) σ with
    | .ok σ1 => [σ1]
    | .error _ => []
  | st :: nxt :: rest, ss, σ =>
    match execL ext (ss.take st.idx) σ with
    | .error _ => []
    | .ok σ1 =>
      match ss[st.idx]?, nxt with
      | some (.loop i lo hi b _), .body _ =>
        match evalC σ1 lo, evalC σ1 hi with
        | .ok l, .ok h =>
          if h < l then [] else
            visitIter (visits (nxt :: rest) b) i
              (fun v s => (execL ext b (s.bind i v)).map (State.leave s)) (h - l).toNat l σ1
        | _, _ => []
      | some (.ite c t _), .body _ =>
        match evalC σ1 c with
        | .ok bv => if bv ≠ 0 then visits (nxt :: rest) t σ1 else []
        | .error _ => []
      | some (.ite c _ e), .orelse _ =>
        match evalC σ1 c with
        | .ok bv => if bv ≠ 0 then [] else visits (nxt :: rest) e σ1
        | .error _ => []
      | _, _ => []

/-- (number of visits, number of visits in which the two statements at `path` commute, both
    statements define no name) -/
def commuteAtPath (path : Rw.Path) (body : List Stmt) (σ : State V) : Option (Nat × Nat × Bool) :=
  match Rw.getAt path body with
  | some (a :: b :: _) =>
    let vs := visits ext path body σ
    some (vs.length, (vs.filter (fun s => commuteAt ext [a] [b] s)).length,
      !(isDefS a || isDefS b))
  | _ => none

end

end Exo.Fp
