/-
  ExoModel.RwCheckData — correspondence A for the data-statement rewrites: is the real output
  `after` the model rewrite (ExoModel.RewriteData) of `before`, up to renaming of bound symbols
  (`Rw.alphaEqBlocks'`)?  Same signature as `Rw.check'`.

  conventions (all: `k = 0`, `flag = false`):
    split_write, fold_into_reduce, inline_assign : `path` = the statement
    merge_writes, lift_reduce_constant           : `path` = the FIRST statement of the block of two
    rewrite_expr, commute_expr, left_reassociate_expr : `path` = the statement that contains the
                   expression (the `body`/`orelse` steps of the expression cursor's path; the steps
                   inside the statement dropped)
    divide_with_recompute : `path` = the loop, `k` = outer_stride
-/
import ExoModel.RwCheck
import ExoModel.AlphaEq
import ExoModel.RewriteData

namespace Exo.Rw
open Exo

def checkData (name : String) (path : Path) (_k : Nat) (_flag : Bool) (before after : List Stmt) :
    Except String Unit := do
  let some _ := getAt path before | throw "path invalid in input"
  match name with
  | "split_write" => same' (rewriteAt splitWrite path before) after
  | "merge_writes" => same' (rewriteAt mergeWrites path before) after
  | "fold_into_reduce" => same' (rewriteAt foldIntoReduce path before) after
  | "lift_reduce_constant" => same' (rewriteAt liftConstant path before) after
  | "inline_assign" =>
    -- deleting the only statement of a block leaves `pass`; that situation cannot be seen from
    -- the block suffix a `Local` is given, so both candidates are tried
    match rewriteAt inlineAssign path before, rewriteAt inlineAssignOnly path before with
    | some m, some m' =>
      expect (alphaEqBlocks' m after || alphaEqBlocks' m' after) "real output differs from the model rewrite"
    | m, _ => same' m after
  | "rewrite_expr" =>
    match getAt path after with
    | some (s' :: _) => same' (rewriteAt (rewriteExprWith s') path before) after
    | _ => throw "rewrite_expr: path invalid in output"
  | "commute_expr" =>
    match getAt path after with
    | some (s' :: _) => same' (rewriteAt (commuteExprWith s') path before) after
    | _ => throw "commute_expr: path invalid in output"
  | "left_reassociate_expr" =>
    match getAt path after with
    | some (s' :: _) => same' (rewriteAt (reassocExprWith s') path before) after
    | _ => throw "left_reassociate_expr: path invalid in output"
  | "divide_with_recompute" =>
    -- `k` = outer_stride; the new iterators and the parsed outer bound are read off the output
    match getAt path after with
    | some (.loop io _ ohi [.loop ii _ _ _ _] _ :: _) =>
      same' (rewriteAt (divideWithRecompute io ii ohi (_k : Int)) path before) after
    | _ => throw "divide_with_recompute: unexpected shape"
  | _ => throw s!"no model for {name}"

end Exo.Rw
