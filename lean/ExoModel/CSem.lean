/-
  ExoModel.CSem — a mini-C: the statements that `Compiler.comp_s` (src/exo/backend/LoopIR_compiler.py)
  emits for the DRAM core of LoopIR, with an executable semantics `execC`.

    * integer expressions   `CI`: what `comp_e` prints for control-typed expressions.  Index
                            expressions that went through `comp_cir` are embedded as
                            `Exo.CIndex.CExpr` (constructor `ix`) and keep the meaning `cEval`
                            (`/` = `Int.tdiv`, `%` = `Int.tmod`, `exo_floor_div` as written)
    * data expressions      `CD`: reads `x[off]`, `w.data[off]`, `x`, `*x`, literals, `+ - * /`,
                            unary minus, `ctxt->cfg.field`
    * statements            `CStmt`: `;`, `lv = e;`, `lv += e;`, `ctxt->cfg.f = e;`, `if/else`,
                            `for (int_fast32_t i = lo; i < hi; i++)`, `T *x = malloc(..)`, `T x;`,
                            `free(x);`, `struct exo_win_kT w = (struct ..){ &x[off], { s.. } };`

  State: integer variables, pointer / window-struct variables, the SAME heap representation as
  `Exo.Sem` (`List (List (Option V))`, `none` = indeterminate value) plus one allocation `Status`
  per heap block, and the configuration struct `ctxt`.  The heap is a stack of blocks: a C block
  `{ … }` drops at its closing brace the blocks that were allocated inside it — after the `leak`
  monitor has checked that each of them was `free`d (or lives on the C stack).  Pointer variables
  are block scoped and there is no pointer assignment in this language, so no pointer to a dropped
  block survives the brace.

  Monitors (constructors of `CErr`): `oobC` (index outside the block), `useAfterFree`,
  `doubleFree`, `badFree` (free of something `malloc` did not return), `leak`, `divZeroC`
  (integer `/`, `%`, `exo_floor_div` by 0).  `stuck` = the program is not a well-typed C program
  (unknown variable, `.data` of a plain pointer, …): a C compiler rejects it, nothing runs.
  Unbound *integer* variables read as 0 and unknown strides as 0 (`ρOf`, `σOf`): scoping of
  integers is a compile-time matter of C, there is no run-time monitor for it.

  `execC mon …`: `mon = true` is the semantics; with `mon = false` the three monitors that look at
  the allocation status (`useAfterFree`, `doubleFree`/`badFree`, `leak`) are switched off — used to
  separate "computes the right values" from "frees correctly" in Props/C02Stmt.lean.

  `for`: the bounds are evaluated once.  In this language nothing assigns to an integer variable;
  a config read (`ctxt->c.f`) in a bound could be changed by the body and the real C re-evaluates
  `i < hi` every round — `CompileS.compS` never emits one there: the compiler's range analysis
  (`add_loop_iter`) raises on a non-index node in a bound, and so does the model.

  `par` loops are executed sequentially (`#pragma omp parallel for` is only printed).
  No Mathlib.  Total, computable.
-/
import ExoModel.CIndex

namespace Exo.CSem
open Exo Exo.CIndex
open Exo.Range (Op Val)

inductive CErr
  | oobC | useAfterFree | doubleFree | badFree | leak | divZeroC | stuck
deriving DecidableEq, Repr, Inhabited

instance : ToString CErr := ⟨fun e => match e with
  | .oobC => "oobC" | .useAfterFree => "useAfterFree" | .doubleFree => "doubleFree"
  | .badFree => "badFree" | .leak => "leak" | .divZeroC => "divZeroC" | .stuck => "stuck"⟩

/-! ## syntax -/

/-- C integer expressions as `comp_e` prints them for control-typed LoopIR expressions -/
inductive CI
  | ix (e : CExpr)                 -- text produced by `comp_cir` (accesses, strides, shapes)
  | var (x : Sym)
  | lit (n : Int)
  | blit (b : Bool)                -- `true` / `false`
  | bin (op : BinOp) (a b : CI)    -- C `+ - * / % < > <= >= == && ||`
  | floorDiv (a b : CI)            -- `exo_floor_div(a, b)`
  | neg (a : CI)
  | cfg (c f : String)             -- `ctxt->c.f`
deriving Repr, Inhabited

/-- an lvalue (also used as an rvalue read) -/
inductive LVal
  | idx (x : Sym) (isWin : Bool) (off : CExpr)   -- `x[off]` / `x.data[off]`
  | scalar (x : Sym) (byRef : Bool)              -- `x` / `*x`
deriving Repr, Inhabited

/-- C data expressions -/
inductive CD
  | rd (lv : LVal)
  | lit (num : Int) (den : Nat)
  | bin (op : BinOp) (a b : CD)    -- `+ - * /`
  | neg (a : CD)
  | cfg (c f : String)
deriving Repr, Inhabited

/-- kinds of C parameters: `int_fast32_t` / `bool`; `T*` (dense tensor, scalar by reference);
    `struct exo_win_kT` by value (rank `k`; checked by the typing judgement `ExoModel.CTyping`, not at
    run time) -/
inductive PKind | int | ptr | win (rank : Nat)
deriving DecidableEq, Repr, Inhabited

/-- actual arguments as `comp_fnarg` prints them -/
inductive CArg
  | int (e : CI)
  | ptr (x : Sym) (addr : Bool)      -- `x` (pointer variable passed on) / `&x` (local scalar `T x;`)
  | winVar (x : Sym)                 -- a window struct variable, by value
  | win (src : Sym) (srcIsWin : Bool) (los strides : List CExpr) (isIv : List Bool)
      -- `(struct exo_win_kT){ &src[Σ lo·stride], { kept strides } }`
deriving Repr, Inhabited

mutual
inductive CStmt
  | nop                                             -- `; // NO-OP`
  | store (lv : LVal) (e : CD)                      -- `lv = e;`
  | accum (lv : LVal) (e : CD)                      -- `lv += e;`
  | cfgWriteI (c f : String) (e : CI)               -- `ctxt->c.f = e;` (control field)
  | cfgWriteD (c f : String) (e : CD)               -- `ctxt->c.f = e;` (data field)
  | ite (c : CI) (t e : List CStmt)                 -- `if (c) { t } else { e }` (`else` omitted if `e = []`)
  | for_ (i : Sym) (lo hi : CI) (body : List CStmt) (par : Bool)
  | malloc (x : Sym) (dims : List CExpr)            -- `T *x = (T*) malloc(d0 * d1 * sizeof(*x));`
  | declScalar (x : Sym)                            -- `T x;`
  | free (x : Sym)                                  -- `free(x);`
  | winInit (w src : Sym) (srcIsWin : Bool) (los strides : List CExpr) (isIv : List Bool)
      -- `struct exo_win_kT w = (struct exo_win_kT){ &src[Σ lo·stride], { kept strides } };`
  | call (f : CFun) (args : List CArg)              -- `f(ctxt,a1,a2,…);` — the callee is embedded,
                                                    -- as in `Exo.Stmt.call`
/-- a C function definition `void name(ctxt, params) { body }` -/
inductive CFun
  | mk (name : String) (params : List (Sym × PKind)) (body : List CStmt)
end

instance : Inhabited CStmt := ⟨.nop⟩

/-! ## state -/

/-- value of a pointer variable / a window struct: position inside a heap block (+ strides) -/
inductive CVal
  | ptr (buf : Nat) (off : Int)
  | win (buf : Nat) (off : Int) (strides : List Int)
deriving DecidableEq, Repr, Inhabited

def CVal.buf : CVal → Nat
  | .ptr b _ => b
  | .win b _ _ => b

def CVal.off : CVal → Int
  | .ptr _ o => o
  | .win _ o _ => o

inductive Status
  | live     -- returned by malloc, not yet freed
  | freed
  | stack    -- an automatic variable (`T x;`) or memory owned by the caller's caller: never freed here
deriving DecidableEq, Repr, Inhabited

structure CState (V : Type) where
  ints : List (Sym × Int)
  vals : List (Sym × CVal)
  heap : List (List (Option V))
  stat : List Status
  cfg : List ((String × String) × CfgVal V)

variable {V : Type}

/-- integer variables as a valuation (unbound reads 0) -/
def ρOfL (l : List (Sym × Int)) : Val := fun x => (lookupSym x l).getD 0

/-- `x.strides[d]` (0 if `x` is not a window struct / has no such dimension) -/
def σOfL (l : List (Sym × CVal)) : Sym → Nat → Int := fun x d =>
  match lookupSym x l with
  | some (.win _ _ ss) => ss.getD d 0
  | _ => 0

def ρOf (c : CState V) : Val := ρOfL c.ints
def σOf (c : CState V) : Sym → Nat → Int := σOfL c.vals

/-! ## integer expressions -/

/-- no `/`, `%`, `exo_floor_div` of the expression divides by 0 -/
def divSafe (ρ : Val) (σ : Sym → Nat → Int) : CExpr → Bool
  | .bin op a b =>
      divSafe ρ σ a && divSafe ρ σ b &&
        (if op = .div ∨ op = .mod then cEval ρ σ b != 0 else true)
  | .floorDiv a b => divSafe ρ σ a && divSafe ρ σ b && cEval ρ σ b != 0
  | .neg a => divSafe ρ σ a
  | _ => true

/-- C value of an index expression; division by zero is undefined behaviour -/
def evalIx (c : CState V) (e : CExpr) : Except CErr Int :=
  if divSafe (ρOf c) (σOf c) e then .ok (cEval (ρOf c) (σOf c) e) else .error .divZeroC

def evalIxs (c : CState V) : List CExpr → Except CErr (List Int)
  | [] => pure []
  | e :: r => do let v ← evalIx c e; let vs ← evalIxs c r; pure (v :: vs)

/-- C's strict binary integer operators (`&&`, `||` are handled by `evalCI`) -/
def cArith (op : BinOp) (x y : Int) : Except CErr Int :=
  match op with
  | .add => pure (x + y)
  | .sub => pure (x - y)
  | .mul => pure (x * y)
  | .div => if y = 0 then throw .divZeroC else pure (Int.tdiv x y)
  | .mod => if y = 0 then throw .divZeroC else pure (Int.tmod x y)
  | .lt => pure (b2i (x < y))
  | .gt => pure (b2i (x > y))
  | .le => pure (b2i (x ≤ y))
  | .ge => pure (b2i (x ≥ y))
  | .eq => pure (b2i (x = y))
  | .and => pure (b2i (x ≠ 0 ∧ y ≠ 0))
  | .or => pure (b2i (x ≠ 0 ∨ y ≠ 0))

def evalCI (c : CState V) : CI → Except CErr Int
  | .ix e => evalIx c e
  | .var x => pure (ρOf c x)
  | .lit n => pure n
  | .blit b => pure (b2i b)
  | .neg a => do let v ← evalCI c a; pure (-v)
  | .floorDiv a b => do
      let x ← evalCI c a
      let y ← evalCI c b
      if y = 0 then throw .divZeroC else pure (exoFloorDiv x y)
  | .cfg k f => match lookupCfg (k, f) c.cfg with
      | some (.ctrl n) => pure n
      | _ => throw .stuck
  | .bin .and a b => do      -- short circuit
      let x ← evalCI c a
      if x = 0 then pure 0 else do
        let y ← evalCI c b
        pure (b2i (y ≠ 0))
  | .bin .or a b => do
      let x ← evalCI c a
      if x ≠ 0 then pure 1 else do
        let y ← evalCI c b
        pure (b2i (y ≠ 0))
  | .bin op a b => do
      let x ← evalCI c a
      let y ← evalCI c b
      cArith op x y

/-! ## memory accesses -/

/-- the cell `k` of block `b`, with the monitors -/
def cellAt (mon : Bool) (c : CState V) (b : Nat) (k : Int) : Except CErr (Nat × Nat) :=
  match c.heap[b]? with
  | none => throw .useAfterFree          -- dangling: the block is gone
  | some blk =>
      if mon && (c.stat[b]? == some .freed) then throw .useAfterFree
      else if 0 ≤ k ∧ k < blk.length then pure (b, k.toNat) else throw .oobC

def lvalCell (mon : Bool) (c : CState V) : LVal → Except CErr (Nat × Nat)
  | .idx x isWin off => do
      let o ← evalIx c off
      match lookupSym x c.vals, isWin with
      | some (.ptr b p), false => cellAt mon c b (p + o)
      | some (.win b p _), true => cellAt mon c b (p + o)
      | _, _ => throw .stuck
  | .scalar x _ =>
      match lookupSym x c.vals with
      | some (.ptr b p) => cellAt mon c b p
      | _ => throw .stuck

section
variable [DataAlg V]

def evalCD (mon : Bool) (c : CState V) : CD → Except CErr (Option V)
  | .rd lv => do
      let cell ← lvalCell mon c lv
      pure (heapGet c.heap cell)
  | .lit n d => pure (some (DataAlg.ofRat n d))
  | .neg a => do let v ← evalCD mon c a; pure (v.map DataAlg.neg)
  | .bin op a b => do
      let x ← evalCD mon c a
      let y ← evalCD mon c b
      match op with
      | .add => pure (lift2 DataAlg.add x y)
      | .sub => pure (lift2 DataAlg.sub x y)
      | .mul => pure (lift2 DataAlg.mul x y)
      | .div => pure (lift2 DataAlg.div x y)
      | _ => throw .stuck
  | .cfg k f => match lookupCfg (k, f) c.cfg with
      | some (.data v) => pure v
      | _ => throw .stuck

/-! ## statements -/

/-- `lv = f(old)`; the right-hand side has been evaluated before -/
def writeC (mon : Bool) (c : CState V) (lv : LVal) (f : Option V → Option V) :
    Except CErr (CState V) := do
  let cell ← lvalCell mon c lv
  pure { c with heap := heapSet c.heap cell (f (heapGet c.heap cell)) }

/-- closing brace of the block that was entered in state `cin` -/
def leaveC (mon : Bool) (cin cout : CState V) : Except CErr (CState V) :=
  if mon && (cout.stat.drop cin.heap.length).any (fun s => s == .live) then throw .leak
  else pure { ints := cin.ints, vals := cin.vals, heap := cout.heap.take cin.heap.length,
              stat := cout.stat.take cin.heap.length, cfg := cout.cfg }

def iterC (f : Int → CState V → Except CErr (CState V)) : Nat → Int → CState V →
    Except CErr (CState V)
  | 0, _, c => pure c
  | n + 1, lo, c => do
      let c' ← f lo c
      iterC f n (lo + 1) c'

/-- the window accesses on values, from the evaluated `lo`s and the interval flags -/
def mkWA : List Int → List Bool → List WA
  | l :: ls, true :: bs => .iv l :: mkWA ls bs
  | l :: ls, false :: bs => .pt l :: mkWA ls bs
  | _, _ => []

def freeC (mon : Bool) (c : CState V) (x : Sym) : Except CErr (CState V) :=
  match lookupSym x c.vals with
  | some (.ptr b o) =>
      if mon then
        (if o ≠ 0 then throw .badFree else
         match c.stat[b]? with
         | some .live => pure { c with stat := c.stat.set b .freed }
         | some .freed => throw .doubleFree
         | some .stack => throw .badFree
         | none => throw .useAfterFree)
      else pure { c with stat := c.stat.set b .freed }
  | _ => if mon then throw .stuck else pure c

/-- value of an actual argument -/
inductive AVal
  | int (n : Int)
  | val (cv : CVal)
deriving Repr, Inhabited

def evalArg (c : CState V) : CArg → Except CErr AVal
  | .int e => do let v ← evalCI c e; pure (.int v)
  | .ptr x _ => match lookupSym x c.vals with
      | some (.ptr b o) => pure (.val (.ptr b o))
      | _ => throw .stuck
  | .winVar x => match lookupSym x c.vals with
      | some (.win b o ss) => pure (.val (.win b o ss))
      | _ => throw .stuck
  | .win src srcIsWin los strides isIv => do
      let ls ← evalIxs c los
      let ss ← evalIxs c strides
      match lookupSym src c.vals, srcIsWin with
      | some (.ptr b p), false =>
          let r := cWindow ⟨p, ss⟩ (mkWA ls isIv)
          pure (.val (.win b r.off r.strides))
      | some (.win b p _), true =>
          let r := cWindow ⟨p, ss⟩ (mkWA ls isIv)
          pure (.val (.win b r.off r.strides))
      | _, _ => throw .stuck

/-- bind actuals to parameters (same order of accumulation as `Exo.bindArgs`); a value of the
    wrong kind is a C type error -/
def bindC (c : CState V) : List (Sym × PKind) → List CArg → List (Sym × Int) →
    List (Sym × CVal) → Except CErr (List (Sym × Int) × List (Sym × CVal))
  | [], [], ci, cv => pure (ci, cv)
  | (x, k) :: ps, a :: as, ci, cv => do
      let v ← evalArg c a
      match k, v with
      | .int, .int n => bindC c ps as ((x, n) :: ci) cv
      | .ptr, .val (.ptr b o) => bindC c ps as ci ((x, .ptr b o) :: cv)
      | .win _, .val (.win b o ss) => bindC c ps as ci ((x, .win b o ss) :: cv)
      | _, _ => throw .stuck
  | _, _, _, _ => throw .stuck

mutual
def execCS (mon : Bool) : CStmt → CState V → Except CErr (CState V)
  | .nop, c => pure c
  | .store lv e, c => do
      let v ← evalCD mon c e
      writeC mon c lv (fun _ => v)
  | .accum lv e, c => do
      let v ← evalCD mon c e
      writeC mon c lv (fun old => lift2 DataAlg.add old v)
  | .cfgWriteI k f e, c => do
      let v ← evalCI c e
      pure { c with cfg := setCfg (k, f) (.ctrl v) c.cfg }
  | .cfgWriteD k f e, c => do
      let v ← evalCD mon c e
      pure { c with cfg := setCfg (k, f) (.data v) c.cfg }
  | .ite cnd t e, c => do
      let b ← evalCI c cnd
      if b ≠ 0 then do
        let c' ← execCL mon t c
        leaveC mon c c'
      else do
        let c' ← execCL mon e c
        leaveC mon c c'
  | .for_ i lo hi body _, c => do
      let l ← evalCI c lo
      let h ← evalCI c hi
      iterC (fun v s => do
        let s' ← execCL mon body { s with ints := (i, v) :: s.ints }
        leaveC mon s s') (h - l).toNat l c
  | .malloc x dims, c => do
      let ns ← evalIxs c dims
      let n := (ns.foldl (· * ·) 1).toNat
      pure { c with heap := c.heap ++ [List.replicate n none], stat := c.stat ++ [.live],
                    vals := (x, .ptr c.heap.length 0) :: c.vals }
  | .declScalar x, c =>
      pure { c with heap := c.heap ++ [[none]], stat := c.stat ++ [.stack],
                    vals := (x, .ptr c.heap.length 0) :: c.vals }
  | .free x, c => freeC mon c x
  | .winInit w src srcIsWin los strides isIv, c => do
      let ls ← evalIxs c los
      let ss ← evalIxs c strides
      match lookupSym src c.vals, srcIsWin with
      | some (.ptr b p), false =>
          let r := cWindow ⟨p, ss⟩ (mkWA ls isIv)
          pure { c with vals := (w, .win b r.off r.strides) :: c.vals }
      | some (.win b p _), true =>
          let r := cWindow ⟨p, ss⟩ (mkWA ls isIv)
          pure { c with vals := (w, .win b r.off r.strides) :: c.vals }
      | _, _ => throw .stuck
  | .call (.mk _ ps body) args, c => do
      -- a fresh frame (only the parameters are visible) sharing heap, statuses and `ctxt`; at the
      -- callee's closing brace its blocks are dropped (leak monitor) and the caller's frame is back
      let (ci, cv) ← bindC c ps args [] []
      let c' ← execCL mon body { c with ints := ci, vals := cv }
      leaveC mon c c'
def execCL (mon : Bool) : List CStmt → CState V → Except CErr (CState V)
  | [], c => pure c
  | s :: r, c => do
      let c' ← execCS mon s c
      execCL mon r c'
end

/-- a function body: a block -/
def execCB (mon : Bool) (ss : List CStmt) (c : CState V) : Except CErr (CState V) := do
  let c' ← execCL mon ss c
  leaveC mon c c'

end

end Exo.CSem
