/-
  ExoModel.Config — vocabulary of property C10 (configuration rewrites report every field they
  may change).

  * `CfgAgreeOutside K σ σ'`  : two states are equal except for the configuration fields in `K`
                                (configuration compared by `lookupCfg`, i.e. extensionally)
  * `StRefines K σ σ'`        : same names, and `Refines K` (poison order on cells/fields)
  * `RelFam`                  : what the simulation rules need of such a family of relations;
                                `agreeFam` (exact agreement) and `refineFam` (refinement)
  * `Sim R K K' B B'`         : `B'` simulates `B`: from `K`-related states every successful run of
                                `B` is matched by a run of `B'` ending in `K'`-related states
  * `Insensitive K B`         : `B` does not read the fields of `K` (its runs from states that
                                differ only in `K` differ only in `K`);  `Overwrites`: … and agree
                                on `K` too afterwards (`K` is written on every path before it is read)
  * the three rewrites as executable block rewrites: `deleteWrite`, `insertWrite`, `bindConfig`
    (+ `applyAt` to apply a block rewrite below loops and branches, mirroring a cursor path)

  The Python side is `Check_DeleteConfigWrite` / `Check_ExtendEqv` (src/exo/rewrite/new_eff.py),
  `DoDeleteConfig`, `DoConfigWrite`, `DoBindConfig`, `DoCallSwap` (LoopIR_scheduling.py).  The SMT
  queries are not modelled: what they are meant to establish appears as the semantic predicates
  above, and the theorems of Props/C10 derive the reported `Equiv K` from them.
-/
import ExoModel.Syntax
import ExoModel.Sem
import ExoModel.Equiv

namespace Exo.Config
open Exo

/-- a configuration field `(config name, field name)` -/
abbrev Field := String × String
/-- a set of configuration fields (the "modulo" set of an equivalence) -/
abbrev FieldSet := Field → Prop

def noField : FieldSet := fun _ => False
def single (k : Field) : FieldSet := fun x => x = k
def union (A B : FieldSet) : FieldSet := fun x => A x ∨ B x
def add (K : FieldSet) (k : Field) : FieldSet := fun x => K x ∨ x = k

variable {V : Type}

/-- the two states are equal except for the configuration fields in `K` -/
structure CfgAgreeOutside (K : FieldSet) (σ σ' : State V) : Prop where
  env : σ.env = σ'.env
  views : σ.views = σ'.views
  heap : σ.heap = σ'.heap
  cfg : ∀ k, ¬ K k → lookupCfg k σ.cfg = lookupCfg k σ'.cfg

/-- same names in scope, and `σ'` refines `σ` (cells and configuration fields outside `K`) -/
structure StRefines (K : FieldSet) (σ σ' : State V) : Prop where
  env : σ.env = σ'.env
  views : σ.views = σ'.views
  ref : Refines K σ σ'

/-- `o` is `σ` except possibly for the value of configuration field `k`
    (what a `writecfg` to `k` does: the frame lemma `writecfg_frame`) -/
structure FrameAt (k : Field) (σ o : State V) : Prop where
  env : o.env = σ.env
  views : o.views = σ.views
  heap : o.heap = σ.heap
  cfg : ∀ k', k' ≠ k → lookupCfg k' o.cfg = lookupCfg k' σ.cfg

/-- a family of state relations indexed by the set of fields that may differ, with the closure
    properties the simulation rules use -/
structure RelFam where
  rel : FieldSet → {V : Type} → State V → State V → Prop
  refl : ∀ (K : FieldSet) {V : Type} (σ : State V), rel K σ σ
  trans : ∀ {K : FieldSet} {V : Type} {a b c : State V}, rel K a b → rel K b c → rel K a c
  mono : ∀ {K K' : FieldSet} {V : Type} {σ σ' : State V}, (∀ k, K k → K' k) → rel K σ σ' → rel K' σ σ'
  bind : ∀ {K : FieldSet} {V : Type} {σ σ' : State V} (i : Sym) (v : Int),
    rel K σ σ' → rel K (σ.bind i v) (σ'.bind i v)
  leave : ∀ {K K' : FieldSet} {V : Type} {a a' s s' : State V},
    rel K a a' → rel K' s s' → rel K' (State.leave a s) (State.leave a' s')
  frameL : ∀ {K : FieldSet} {V : Type} {σ σ' o : State V} {k : Field},
    rel K σ σ' → FrameAt k σ o → rel (add K k) o σ'
  frameR : ∀ {K : FieldSet} {V : Type} {σ σ' o' : State V} {k : Field},
    rel K σ σ' → FrameAt k σ' o' → rel (add K k) σ o'
  toRefines : ∀ {K : FieldSet} {V : Type} {σ σ' : State V}, rel K σ σ' → StRefines K σ σ'

theorem heapGet_take (h : List (List (Option V))) (n : Nat) (c : Nat × Nat) :
    heapGet (h.take n) c = if c.1 < n then heapGet h c else .none := by
  unfold heapGet
  rw [List.getElem?_take]
  by_cases hc : c.1 < n <;> simp [hc]

theorem CellRefines.rfl' (a : Option V) : CellRefines a a := Or.inr rfl
theorem CellRefines.trans' {a b c : Option V} (h : CellRefines a b) (h' : CellRefines b c) :
    CellRefines a c := by
  rcases h with h | h
  · exact Or.inl h
  · subst h; exact h'

theorem CfgValRefines.rfl' (a : CfgVal V) : CfgValRefines a a := by
  cases a <;> simp [CfgValRefines, CellRefines]

theorem CfgValRefines.trans' {a b c : CfgVal V} (h : CfgValRefines a b) (h' : CfgValRefines b c) :
    CfgValRefines a c := by
  cases a <;> cases b <;> cases c <;> simp [CfgValRefines] at *
  · exact h.trans h'
  · exact CellRefines.trans' h h'

/-- exact agreement outside `K` -/
def agreeFam : RelFam where
  rel K _ σ σ' := CfgAgreeOutside K σ σ'
  refl _ _ _ := ⟨rfl, rfl, rfl, fun _ _ => rfl⟩
  trans h h' := ⟨h.env.trans h'.env, h.views.trans h'.views, h.heap.trans h'.heap,
    fun k hk => (h.cfg k hk).trans (h'.cfg k hk)⟩
  mono hK h := ⟨h.env, h.views, h.heap, fun k hk => h.cfg k (fun hk' => hk (hK k hk'))⟩
  bind i v h := ⟨by simp [State.bind, h.env], h.views, h.heap, h.cfg⟩
  leave h h' := ⟨h.env, h.views, by simp [State.leave, h.heap, h'.heap], h'.cfg⟩
  frameL h fr := ⟨fr.env.trans h.env, fr.views.trans h.views, fr.heap.trans h.heap,
    fun k' hk' => (fr.cfg k' (fun e => hk' (Or.inr e))).trans (h.cfg k' (fun e => hk' (Or.inl e)))⟩
  frameR h fr := ⟨h.env.trans fr.env.symm, h.views.trans fr.views.symm, h.heap.trans fr.heap.symm,
    fun k' hk' => (h.cfg k' (fun e => hk' (Or.inl e))).trans (fr.cfg k' (fun e => hk' (Or.inr e))).symm⟩
  toRefines h := ⟨h.env, h.views, by rw [h.heap], fun c => by rw [h.heap]; exact CellRefines.rfl' _,
    fun k hk v hv => ⟨v, by rw [← h.cfg k hk]; exact hv, CfgValRefines.rfl' v⟩⟩

/-- refinement outside `K` (what `Equiv K` of a callee provides) -/
def refineFam : RelFam where
  rel K _ σ σ' := StRefines K σ σ'
  refl _ _ σ := ⟨rfl, rfl, rfl, fun _ => CellRefines.rfl' _, fun _ _ v hv => ⟨v, hv, CfgValRefines.rfl' v⟩⟩
  trans h h' := ⟨h.env.trans h'.env, h.views.trans h'.views,
    h.ref.heapLen.trans h'.ref.heapLen,
    fun c => CellRefines.trans' (h.ref.cells c) (h'.ref.cells c),
    fun k hk v hv => by
      obtain ⟨v', hv', r⟩ := h.ref.cfg k hk v hv
      obtain ⟨v'', hv'', r'⟩ := h'.ref.cfg k hk v' hv'
      exact ⟨v'', hv'', CfgValRefines.trans' r r'⟩⟩
  mono hK h := ⟨h.env, h.views, h.ref.heapLen, h.ref.cells,
    fun k hk => h.ref.cfg k (fun hk' => hk (hK k hk'))⟩
  bind i v h := ⟨by simp [State.bind, h.env], h.views, h.ref.heapLen, h.ref.cells, h.ref.cfg⟩
  leave {_ _ _ a a' s s'} h h' := ⟨h.env, h.views,
    by simp [State.leave, List.length_take, h.ref.heapLen, h'.ref.heapLen],
    fun c => by
      show CellRefines (heapGet (s.heap.take a.heap.length) c) (heapGet (s'.heap.take a'.heap.length) c)
      rw [heapGet_take, heapGet_take, h.ref.heapLen]
      split
      · exact h'.ref.cells c
      · exact CellRefines.rfl' _,
    h'.ref.cfg⟩
  frameL h fr := ⟨fr.env.trans h.env, fr.views.trans h.views,
    by rw [fr.heap]; exact h.ref.heapLen,
    fun c => by rw [fr.heap]; exact h.ref.cells c,
    fun k' hk' v hv => h.ref.cfg k' (fun e => hk' (Or.inl e)) v
      (by rw [← fr.cfg k' (fun e => hk' (Or.inr e))]; exact hv)⟩
  frameR h fr := ⟨h.env.trans fr.env.symm, h.views.trans fr.views.symm,
    by rw [fr.heap]; exact h.ref.heapLen,
    fun c => by rw [fr.heap]; exact h.ref.cells c,
    fun k' hk' v hv => by
      obtain ⟨v', hv', r⟩ := h.ref.cfg k' (fun e => hk' (Or.inl e)) v hv
      exact ⟨v', by rw [fr.cfg k' (fun e => hk' (Or.inr e))]; exact hv', r⟩⟩
  toRefines h := h

/-- `B'` simulates `B` from `K`-related to `K'`-related states -/
def Sim (R : RelFam) (K K' : FieldSet) (B B' : List Stmt) : Prop :=
  ∀ (V : Type) [DataAlg V] (ext : String → List V → V) (σ σ' o : State V),
    R.rel K σ σ' → execL ext B σ = .ok o → ∃ o', execL ext B' σ' = .ok o' ∧ R.rel K' o o'

/-- the same from one common initial state -/
def Sim0 (R : RelFam) (K' : FieldSet) (B B' : List Stmt) : Prop :=
  ∀ (V : Type) [DataAlg V] (ext : String → List V → V) (σ o : State V),
    execL ext B σ = .ok o → ∃ o', execL ext B' σ = .ok o' ∧ R.rel K' o o'

/-- a control expression (loop bound, branch condition) has the same value in related states,
    i.e. it does not read a field of `K` -/
def CondOk (R : RelFam) (K : FieldSet) (e : Expr) : Prop :=
  ∀ (V : Type) (σ σ' : State V), R.rel K σ σ' → evalC σ e = evalC σ' e

/-- the block does not read the fields of `K`: runs from two states that differ only in `K`
    both succeed or neither does (by symmetry of the relation) and the results differ only in `K` -/
def Insensitive (K : FieldSet) (B : List Stmt) : Prop := Sim agreeFam K K B B

/-- … and afterwards the states agree on `K` as well: every field of `K` is overwritten, on
    every path, before it is read (`K'` = the fields that may still differ) -/
def Overwrites (K K' : FieldSet) (B : List Stmt) : Prop := Sim agreeFam K K' B B

/-- field `k` is not read by `B` -/
def NotReadBy (k : Field) (B : List Stmt) : Prop := Insensitive (single k) B
/-- field `k` is overwritten by `B` before being read, on every path -/
def OverwrittenBy (k : Field) (B : List Stmt) : Prop := Overwrites (single k) noField B

/-- is the hole below a loop? (then the statements around it run again after it) -/
def inLoop : Ctx → Bool
  | .hole => false
  | .seq _ c _ => inLoop c
  | .loop _ _ _ _ _ => true
  | .iteT _ c _ => inLoop c
  | .iteE _ _ c => inLoop c

/-- every part of the context runs the same from `K`-related states (strong form, needed below
    a loop: everything in the loop body is executed after the hole as well) -/
def CtxInsens (R : RelFam) (K : FieldSet) : Ctx → Prop
  | .hole => True
  | .seq pre c post => Sim R K K pre pre ∧ CtxInsens R K c ∧ Sim R K K post post
  | .loop _ lo hi _ c => CondOk R K lo ∧ CondOk R K hi ∧ CtxInsens R K c
  | .iteT cond c e => CondOk R K cond ∧ CtxInsens R K c ∧ Sim R K K e e
  | .iteE cond t c => CondOk R K cond ∧ Sim R K K t t ∧ CtxInsens R K c

/-- what is executed *after* the hole runs the same from `K`-related states (weak form:
    statements before the hole, outside every loop, are not constrained) -/
def CtxInsens0 (R : RelFam) (K : FieldSet) : Ctx → Prop
  | .hole => True
  | .seq _ c post => CtxInsens0 R K c ∧ Sim R K K post post
  | .loop _ _ _ _ c => CtxInsens R K c
  | .iteT _ c _ => CtxInsens0 R K c
  | .iteE _ _ c => CtxInsens0 R K c

/-- exact version of `Equiv`: the derived procedure's final state equals the original's except
    for the configuration fields in `K` -/
def EquivExact (K : FieldSet) (p p' : Proc) : Prop :=
  ∀ (V : Type) [DataAlg V] (ext : String → List V → V) (σ o : State V),
    execB ext p.body σ = .ok o → ∃ o', execB ext p'.body σ = .ok o' ∧ CfgAgreeOutside K o o'

/-! ### the rewrites, as executable block rewrites -/

/-- a block may not be empty in LoopIR: the cursor deletion leaves `pass` behind -/
def orPass (B : List Stmt) : List Stmt := if B.isEmpty then [.pass] else B

/-- `delete_config`: remove statement `i` of the block if it is a configuration write (leaving
    `pass` if it was the only statement, as `Cursor._delete` does); returns the field and the new
    block -/
def deleteWrite (B : List Stmt) (i : Nat) : Option (Field × List Stmt) :=
  match B[i]? with
  | some (.writecfg c f _ _) => some ((c, f), orPass (B.take i ++ B.drop (i + 1)))
  | _ => .none

/-- `write_config`: insert `c.f = rhs` at gap `i` (before statement `i`) -/
def insertWrite (B : List Stmt) (i : Nat) (c f : String) (rhs : Expr) (d : Bool) : List Stmt :=
  B.take i ++ [.writecfg c f rhs d] ++ B.drop i

/-- positions of sub-expressions: child indices from the root (`usub`: 0; `binop`: 0/1;
    `read`: index k; `extern`: argument k) -/
abbrev EPath := List Nat

mutual
def subAt : Expr → EPath → Option Expr
  | e, [] => some e
  | .usub a, k :: p => if k = 0 then subAt a p else .none
  | .binop _ a b, k :: p => if k = 0 then subAt a p else if k = 1 then subAt b p else .none
  | .read _ idx, k :: p => subAtL idx k p
  | .extern _ args, k :: p => subAtL args k p
  | .lit _, _ :: _ => .none
  | .win _ _, _ :: _ => .none
  | .stride _ _, _ :: _ => .none
  | .readcfg _ _, _ :: _ => .none
def subAtL : List Expr → Nat → EPath → Option Expr
  | [], _, _ => .none
  | e :: es, k, p => match k with
    | 0 => subAt e p
    | k + 1 => subAtL es k p
end

mutual
def replaceAt : Expr → EPath → Expr → Expr
  | _, [], r => r
  | .usub a, k :: p, r => if k = 0 then .usub (replaceAt a p r) else .usub a
  | .binop op a b, k :: p, r =>
      if k = 0 then .binop op (replaceAt a p r) b
      else if k = 1 then .binop op a (replaceAt b p r) else .binop op a b
  | .read x idx, k :: p, r => .read x (replaceAtL idx k p r)
  | .extern f args, k :: p, r => .extern f (replaceAtL args k p r)
  | .lit c, _ :: _, _ => .lit c
  | .win x a, _ :: _, _ => .win x a
  | .stride x d, _ :: _, _ => .stride x d
  | .readcfg c f, _ :: _, _ => .readcfg c f
def replaceAtL : List Expr → Nat → EPath → Expr → List Expr
  | [], _, _, _ => []
  | e :: es, k, p, r => match k with
    | 0 => replaceAt e p r :: es
    | k + 1 => e :: replaceAtL es k p r
end

/- `occMode m E p`: is the occurrence at `p` evaluated as a data value (`true`) or as a control
   value (`false`), when `E` is evaluated in mode `m`?  Below an index of a `read` everything is
   control. -/
mutual
def occMode (m : Bool) : Expr → EPath → Bool
  | _, [] => m
  | .usub a, k :: p => if k = 0 then occMode m a p else m
  | .binop _ a b, k :: p => if k = 0 then occMode m a p else if k = 1 then occMode m b p else m
  | .read _ idx, k :: p => occModeL false idx k p
  | .extern _ args, k :: p => occModeL m args k p
  | .lit _, _ :: _ => m
  | .win _ _, _ :: _ => m
  | .stride _ _, _ :: _ => m
  | .readcfg _ _, _ :: _ => m
def occModeL (m : Bool) : List Expr → Nat → EPath → Bool
  | [], _, _ => m
  | e :: es, k, p => match k with
    | 0 => occMode m e p
    | k + 1 => occModeL m es k p
end

/-- the expression slots of a statement in which `bind_config` may find its expression -/
inductive Slot
  | rhs            -- right-hand side of assign / reduce / writecfg
  | idx (k : Nat)  -- k-th index of assign / reduce
  | cond           -- condition of an `if`
  | lo | hi        -- loop bounds
  | arg (k : Nat)  -- k-th actual of a call whose k-th formal is a control argument
deriving DecidableEq, Repr

def isCtrlFormal (p : Proc) (k : Nat) : Bool :=
  match p.args[k]? with
  | some ⟨_, .ctrl _⟩ => true
  | _ => false

/-- (expression in the slot, evaluation mode of the slot: `true` = data) -/
def exprAt : Stmt → Slot → Option (Expr × Bool)
  | .assign _ _ rhs, .rhs => some (rhs, true)
  | .reduce _ _ rhs, .rhs => some (rhs, true)
  | .writecfg _ _ rhs d, .rhs => some (rhs, d)
  | .assign _ idx _, .idx k => (idx[k]?).map (·, false)
  | .reduce _ idx _, .idx k => (idx[k]?).map (·, false)
  | .ite c _ _, .cond => some (c, false)
  | .loop _ lo _ _ _, .lo => some (lo, false)
  | .loop _ _ hi _ _, .hi => some (hi, false)
  | .call f args, .arg k => if isCtrlFormal f k then (args[k]?).map (·, false) else .none
  | _, _ => .none

def setExpr : Stmt → Slot → Expr → Stmt
  | .assign x idx _, .rhs, e => .assign x idx e
  | .reduce x idx _, .rhs, e => .reduce x idx e
  | .writecfg c f _ d, .rhs, e => .writecfg c f e d
  | .assign x idx rhs, .idx k, e => .assign x (idx.set k e) rhs
  | .reduce x idx rhs, .idx k, e => .reduce x (idx.set k e) rhs
  | .ite _ t el, .cond, e => .ite e t el
  | .loop i _ hi b par, .lo, e => .loop i e hi b par
  | .loop i lo _ b par, .hi, e => .loop i lo e b par
  | .call f args, .arg k, e => .call f (args.set k e)
  | s, _, _ => s

/-- `bind_config` on one statement: `s[e]  ↦  c.f = e ; s[c.f]` where `e` is the sub-expression
    at `path` of slot `slot`.  Refused (`none`) if there is no such occurrence, or if the kind of
    the field (`d` = data field) is not the kind of the occurrence (the type check of
    `bind_config`: `e.type == config.lookup_type(field)`). -/
def bindStmt (s : Stmt) (slot : Slot) (path : EPath) (c f : String) (d : Bool) :
    Option (Expr × List Stmt) :=
  match exprAt s slot with
  | some (E, m) =>
    match subAt E path with
    | some e =>
      if occMode m E path = d then
        some (e, [.writecfg c f e d, setExpr s slot (replaceAt E path (.readcfg c f))])
      else .none
    | .none => .none
  | .none => .none

/-- `bind_config` at statement `i` of a block -/
def bindConfig (B : List Stmt) (i : Nat) (slot : Slot) (path : EPath) (c f : String) (d : Bool) :
    Option (List Stmt) :=
  match B[i]? with
  | some s => (bindStmt s slot path c f d).map (fun r => B.take i ++ r.2 ++ B.drop (i + 1))
  | .none => .none

/-- cursor-path steps: enter the body (of a loop or the then-branch of an `if`) or the else-branch
    of statement `i` -/
inductive Step
  | body (i : Nat)
  | orelse (i : Nat)
deriving DecidableEq, Repr

/-- apply a block rewrite to the block reached by a cursor path -/
def applyAt (rw : List Stmt → Option (List Stmt)) : List Step → List Stmt → Option (List Stmt)
  | [], B => rw B
  | .body i :: p, B =>
    match B[i]? with
    | some (.loop x lo hi b par) =>
        (applyAt rw p b).map (fun b' => B.take i ++ [.loop x lo hi b' par] ++ B.drop (i + 1))
    | some (.ite c t e) =>
        (applyAt rw p t).map (fun t' => B.take i ++ [.ite c t' e] ++ B.drop (i + 1))
    | _ => .none
  | .orelse i :: p, B =>
    match B[i]? with
    | some (.ite c t e) =>
        (applyAt rw p e).map (fun e' => B.take i ++ [.ite c t e'] ++ B.drop (i + 1))
    | _ => .none

/-- `call_eqv`: replace the callee of statement `i` (a call) by `g` -/
def swapCall (g : Proc) (B : List Stmt) (i : Nat) : Option (List Stmt) :=
  match B[i]? with
  | some (.call _ args) => some (B.take i ++ [.call g args] ++ B.drop (i + 1))
  | _ => .none

end Exo.Config
