/-
  ExoModel.X86 — what the C fragments of src/exo/platforms/x86.py DO.

  * `CExp` / `CStmt`: the small fragment of C that the `@instr` format strings are written in,
    after the placeholders `{x_data}`, `&{x_data}`, `{x}` have been resolved to references to
    the instruction's formal arguments (harness/translate/x86_instrs.py parses the strings;
    whatever it cannot parse becomes `CStmt.opaque`, whose execution is an error).
  * `CVal`: run-time values of that fragment: data vectors (`__m256`, `__m256d`, `__m512`, and
    `__m256i` holding ui16 data) as lists of lanes over the abstract data algebra, integer /
    bit-pattern vectors (`__m256i` masks), C ints, floats, pointers into the heap of ExoModel.Sem.
  * `intrinsic`: lane-wise models of the Intel intrinsics x86.py uses, written from the
    pseudo-code of the Intel Intrinsics Guide (tied to gcc + the real CPU by harness/props/c14.py).
  * `execCInstr`: sequential execution of a fragment on a state of the reference semantics; how
    a placeholder denotes depends on the kind of the argument exactly as in
    LoopIR_compiler.py (Call case, lines ≈923-947) + `Memory.window` of DRAM / AVX2 / AVX512:
      register operand  `{x_data}`  = the vector register (all lanes, contiguous)
      memory operand    `{x_data}`  = the float lvalue at the window's first element,
                        `&{x_data}` = pointer to it
      scalar operand    `{x_data}`, `{x}` = pointer to the scalar
      control operand   `{x}`, `{x_data}` = its integer value
    C knows nothing about Exo's strides: vector loads/stores touch CONTIGUOUS cells.
-/
import ExoModel.LawfulDataAlg

namespace Exo.X86

/-- the intrinsics with a lane model; the translator emits `.unknown name` for any other name -/
inductive Intr
  | mm256_setzero_ps | mm256_setzero_pd | mm512_setzero_ps
  | mm256_loadu_ps | mm256_loadu_pd | mm512_loadu_ps | mm256_loadu_si256
  | mm256_storeu_ps | mm256_storeu_pd | mm512_storeu_ps | mm256_storeu_si256
  | mm256_fmadd_ps | mm256_fmadd_pd | mm512_fmadd_ps
  | mm256_broadcast_ss | mm256_broadcast_sd
  | mm256_set1_ps | mm256_set1_pd | mm512_set1_ps
  | mm256_mul_ps | mm256_mul_pd | mm256_div_ps | mm256_div_pd
  | mm256_add_ps | mm256_add_pd | mm256_sub_ps | mm256_sub_pd
  | mm512_add_ps | mm512_mask_add_ps | mm512_maskz_loadu_ps | mm512_mask_storeu_ps
  | mm512_mask_fmadd_ps | mm512_max_ps
  | mm256_xor_ps_self
  | mm256_blendv_ps | mm256_blendv_pd | mm256_cmp_ps | mm256_cmp_pd
  | mm256_hadd_ps | mm256_hadd_pd | mm256_extractf128_ps | mm256_extractf128_pd
  | mm256_castps128_ps256 | mm256_castpd128_pd256 | mm256_cvtss_f32 | mm256_cvtsd_f64
  | mm256_cvtps_pd
  | mm256_set_epi32 | mm256_set1_epi32 | mm256_cmpgt_epi32 | mm256_castsi256_ps
  | mm256_maskload_ps | mm256_maskstore_ps | mm256_set1_epi8
  | mm256_adds_epu16
  | mm_prefetch
  | unknown (name : String)
deriving Repr, Inhabited

inductive CExp where
  | data (x : Sym)                 -- `{x_data}`
  | addr (x : Sym)                 -- `&{x_data}`
  | name (x : Sym)                 -- `{x}`
  | var (k : Nat)                  -- k-th local declared in the fragment
  | int (n : Int)
  | flt (num : Int) (den : Nat)    -- 1.0f, -1.0f …
  | cst (c : String)               -- _CMP_LT_OQ
  | call (f : Intr) (args : List CExp)
  | shl (a b : CExp)               -- a << b   (C int)
  | sub (a b : CExp)               -- a - b    (C int)
  | init (es : List CExp)          -- { e, …, e }  vector initialiser
  | zero (ty : String)             -- (T){0}
  | cast (ty : String) (e : CExp)  -- pointer casts: no run-time meaning

inductive CStmt where
  | assignOp (x : Sym) (e : CExp)               -- `{x_data} = e;`
  | decl (ty : String) (k : Nat) (e : CExp)     -- `T v = e;`  (v is local number k)
  | assignVar (k : Nat) (e : CExp)              -- `v = e;`
  | eval (e : CExp)                             -- `e;`  (stores, prefetch)
  | accum (x : Sym) (e : CExp)                  -- `*{x} += e;`
  | opaque (text : String)                      -- not parsed

/-- how an argument of the instruction lives in C -/
inductive ArgKind
  | vreg (lanes : Nat)      -- tensor in AVX2 / AVX512 register memory
  | mem (bits : Nat)        -- tensor window in addressable memory; element width in bits
  | scalar                  -- f32 / f64 scalar (passed by pointer)
  | ctrl                    -- size / index / …
deriving DecidableEq, Repr, Inhabited

structure Instr where
  name : String
  proc : Proc
  kinds : List (Sym × ArgKind)
  cinstr : List CStmt
  /-- number of `CStmt.opaque` nodes (0 = the whole format string was parsed) -/
  nOpaque : Nat

inductive CVal (V : Type) where
  | vec (l : List (Option V))
  | ivec (w : Nat) (l : List Int)
  | int (n : Int)
  | flt (v : Option V)
  | ptr (buf : Nat) (off : Int) (bits : Nat)
  | cst (c : String)

abbrev Heap (V : Type) := List (List (Option V))

section
variable {V : Type}

def bufLen (heap : Heap V) (b : Nat) : Nat := ((heap[b]?).map List.length).getD 0

/-- overwrite the cells `o, o+1, …` of buffer `b` -/
def setLanes (heap : Heap V) (b : Nat) (o : Nat) : List (Option V) → Heap V
  | [] => heap
  | v :: r => setLanes (heapSet heap (b, o) v) b (o + 1) r

def getLanes (heap : Heap V) (b : Nat) (o : Nat) (n : Nat) : List (Option V) :=
  (List.range n).map fun j => heapGet heap (b, o + j)

def loadContig (heap : Heap V) (b : Nat) (o : Int) (n : Nat) : Except Err (List (Option V)) :=
  if 0 ≤ o ∧ o + n ≤ bufLen heap b then pure (getLanes heap b o.toNat n) else throw .oob

def storeContig (heap : Heap V) (b : Nat) (o : Int) (l : List (Option V)) : Except Err (Heap V) :=
  if 0 ≤ o ∧ o + l.length ≤ bufLen heap b then pure (setLanes heap b o.toNat l) else throw .oob

/-- lanes selected by the mask must be addressable (masked-out lanes are not accessed) -/
def maskInBounds (heap : Heap V) (b : Nat) (o : Int) (m : List Bool) : Bool :=
  decide (0 ≤ o) &&
    (List.zipWith (fun mj (j : Nat) => !mj || decide (o + j < bufLen heap b)) m (List.range m.length)).all id

/-- lane j of the result is `b[j]` where the mask is set, `a[j]` elsewhere -/
def blendLanes (m : List Bool) (a b : List (Option V)) : List (Option V) :=
  List.zipWith (fun mj (ab : Option V × Option V) => if mj then ab.2 else ab.1) m (List.zip a b)

/-- masked load: selected lanes from memory, the others `dflt` -/
def loadMasked (heap : Heap V) (b : Nat) (o : Int) (m : List Bool) (dflt : Option V) :
    Except Err (List (Option V)) :=
  if maskInBounds heap b o m then
    pure (List.zipWith (fun mj (j : Nat) => if mj then heapGet heap (b, o.toNat + j) else dflt) m
      (List.range m.length))
  else throw .oob

/-- masked store: selected lanes are written, the others keep their contents -/
def storeMasked (heap : Heap V) (b : Nat) (o : Int) (m : List Bool) (l : List (Option V)) :
    Except Err (Heap V) :=
  if maskInBounds heap b o m then
    pure (setLanes heap b o.toNat
      (List.zipWith (fun (ml : Bool × Option V) (j : Nat) =>
          if ml.1 then ml.2 else heapGet heap (b, o.toNat + j)) (List.zip m l) (List.range m.length)))
  else throw .oob

/-- two's-complement wrap of `n` to `w` bits, as a signed value -/
def wrapS (w : Nat) (n : Int) : Int := (n + 2 ^ (w - 1)) % 2 ^ w - 2 ^ (w - 1)

/-- reinterpret integer lanes of width `w` as lanes of width `w'` (little endian), `w ∣ w'` -/
def regroup (w w' : Nat) (l : List Int) : List Int :=
  let k := w' / w
  (List.range (l.length / k)).map fun j =>
    wrapS w' ((List.range k).foldl (fun acc t => acc + ((l.getD (j * k + t) 0) % 2 ^ w) * 2 ^ (w * t)) 0)

/-- the sign bits of the 32- or 64-bit lanes of an integer vector (what blendv / maskload / maskstore look at) -/
def signMask (w' : Nat) (w : Nat) (l : List Int) : List Bool :=
  (if w = w' then l else regroup w w' l).map fun x => decide (x < 0)

/-- bit j of a two's-complement integer -/
def bitOf (k : Int) (j : Nat) : Bool := decide ((k / 2 ^ j) % 2 = 1)

/-- the low `n` bits of a `__mmask16` -/
def kMask (n : Nat) (k : Int) : List Bool := (List.range n).map fun j => bitOf k j

end

section
variable {V : Type} [LawfulDataAlg V]

def zeroLane : Option V := some (DataAlg.ofRat 0 1)

def lanes2 (f : V → V → V) (a b : List (Option V)) : List (Option V) := List.zipWith (lift2 f) a b

def fmaLanes (a b c : List (Option V)) : List (Option V) :=
  lanes2 DataAlg.add (lanes2 DataAlg.mul a b) c

/-- MAX(a,b) of the Intel pseudo-code: `a > b ? a : b` -/
def maxLane (a b : Option V) : Option V :=
  lift2 (fun x y => if LawfulDataAlg.lt y x then x else y) a b

def asVec (n : Nat) : CVal V → Except Err (List (Option V))
  | .vec l => if l.length = n then pure l else throw .unsupported
  | _ => throw .unsupported

def asIVec (w n : Nat) : CVal V → Except Err (List Int)
  | .ivec w' l => if w' = w ∧ l.length = n then pure l else throw .unsupported
  | _ => throw .unsupported

def asInt : CVal V → Except Err Int
  | .int n => pure n
  | _ => throw .unsupported

def asFlt : CVal V → Except Err (Option V)
  | .flt v => pure v
  | _ => throw .unsupported

def asPtr : CVal V → Except Err (Nat × Int × Nat)
  | .ptr b o w => pure (b, o, w)
  | _ => throw .unsupported

/-- a mask operand of blendv / maskload / maskstore with `n` lanes of `w'` bits -/
def asSignMask (w' n : Nat) : CVal V → Except Err (List Bool)
  | .ivec w l => let m := signMask w' w l
                 if m.length = n then pure m else throw .unsupported
  | _ => throw .unsupported

def allInts : List (CVal V) → Except Err (List Int)
  | [] => pure []
  | .int n :: r => do let l ← allInts r; pure (n :: l)
  | _ :: _ => throw .unsupported

def allFlts : List (CVal V) → Except Err (List (Option V))
  | [] => pure []
  | .flt v :: r => do let l ← allFlts r; pure (v :: l)
  | _ :: _ => throw .unsupported

/-- comparison lane of `_mm256_cmp_ps/pd(_, _, _CMP_LT_OQ)`: all ones / all zeros; comparing an
    uninitialised lane is an error (bit patterns carry no poison) -/
def cmpLtLanes : List (Option V) → List (Option V) → Except Err (List Int)
  | [], [] => pure []
  | some x :: a, some y :: b => do
      let r ← cmpLtLanes a b
      pure ((if LawfulDataAlg.lt x y then -1 else 0) :: r)
  | _, _ => throw .unsupported

def arith2 (n : Nat) (f : V → V → V) : List (CVal V) → Except Err (CVal V)
  | [a, b] => do
      let a ← asVec n a
      let b ← asVec n b
      pure (.vec (lanes2 f a b))
  | _ => throw .unsupported

def fma3 (n : Nat) : List (CVal V) → Except Err (CVal V)
  | [a, b, c] => do
      let a ← asVec n a
      let b ← asVec n b
      let c ← asVec n c
      pure (.vec (fmaLanes a b c))
  | _ => throw .unsupported

def loadN (heap : Heap V) (n : Nat) : List (CVal V) → Except Err (CVal V)
  | [p] => do
      let (b, o, _) ← asPtr p
      let l ← loadContig heap b o n
      pure (.vec l)
  | _ => throw .unsupported

def bcastMem (heap : Heap V) (n : Nat) : List (CVal V) → Except Err (CVal V)
  | [p] => do
      let (b, o, _) ← asPtr p
      let l ← loadContig heap b o 1
      pure (.vec (List.replicate n (l.getD 0 none)))
  | _ => throw .unsupported

def set1 (n : Nat) : List (CVal V) → Except Err (CVal V)
  | [x] => do
      let v ← asFlt x
      pure (.vec (List.replicate n v))
  | _ => throw .unsupported

def blendv (w' n : Nat) : List (CVal V) → Except Err (CVal V)
  | [a, b, m] => do
      let a ← asVec n a
      let b ← asVec n b
      let m ← asSignMask w' n m
      pure (.vec (blendLanes m a b))
  | _ => throw .unsupported

def cmpLt (w' n : Nat) : List (CVal V) → Except Err (CVal V)
  | [a, b, .cst "_CMP_LT_OQ"] => do
      let a ← asVec n a
      let b ← asVec n b
      let l ← cmpLtLanes a b
      pure (.ivec w' l)
  | _ => throw .unsupported

def add2 (a b : Option V) : Option V := lift2 DataAlg.add a b

/-- value-producing intrinsics (loads read `heap`) -/
def intrinsic (heap : Heap V) : Intr → List (CVal V) → Except Err (CVal V)
  | .mm256_setzero_ps, [] => pure (.vec (List.replicate 8 zeroLane))
  | .mm256_setzero_pd, [] => pure (.vec (List.replicate 4 zeroLane))
  | .mm512_setzero_ps, [] => pure (.vec (List.replicate 16 zeroLane))
  | .mm256_loadu_ps, args => loadN heap 8 args
  | .mm256_loadu_pd, args => loadN heap 4 args
  | .mm512_loadu_ps, args => loadN heap 16 args
  | .mm256_loadu_si256, [p] => do
      let (b, o, w) ← asPtr p
      if w = 0 then throw .unsupported
      let l ← loadContig heap b o (256 / w)
      pure (.vec l)
  | .mm256_fmadd_ps, args => fma3 8 args
  | .mm256_fmadd_pd, args => fma3 4 args
  | .mm512_fmadd_ps, args => fma3 16 args
  | .mm256_broadcast_ss, args => bcastMem heap 8 args
  | .mm256_broadcast_sd, args => bcastMem heap 4 args
  | .mm256_set1_ps, args => set1 8 args
  | .mm256_set1_pd, args => set1 4 args
  | .mm512_set1_ps, args => set1 16 args
  | .mm256_mul_ps, args => arith2 8 DataAlg.mul args
  | .mm256_mul_pd, args => arith2 4 DataAlg.mul args
  | .mm256_div_ps, args => arith2 8 DataAlg.div args
  | .mm256_div_pd, args => arith2 4 DataAlg.div args
  | .mm256_add_ps, args => arith2 8 DataAlg.add args
  | .mm256_add_pd, args => arith2 4 DataAlg.add args
  | .mm256_sub_ps, args => arith2 8 DataAlg.sub args
  | .mm256_sub_pd, args => arith2 4 DataAlg.sub args
  | .mm512_add_ps, args => arith2 16 DataAlg.add args
  -- saturating ui16 addition: equals `add` as long as the sum fits (the data algebra is ideal)
  | .mm256_adds_epu16, args => arith2 16 DataAlg.add args
  | .mm512_mask_add_ps, [src, k, a, b] => do
      let src ← asVec 16 src
      let k ← asInt k
      let a ← asVec 16 a
      let b ← asVec 16 b
      pure (.vec (blendLanes (kMask 16 k) src (lanes2 DataAlg.add a b)))
  | .mm512_mask_fmadd_ps, [a, k, b, c] => do
      let a ← asVec 16 a
      let k ← asInt k
      let b ← asVec 16 b
      let c ← asVec 16 c
      pure (.vec (blendLanes (kMask 16 k) a (fmaLanes a b c)))
  | .mm512_maskz_loadu_ps, [k, p] => do
      let k ← asInt k
      let (b, o, _) ← asPtr p
      let l ← loadMasked heap b o (kMask 16 k) zeroLane
      pure (.vec l)
  | .mm512_max_ps, [a, b] => do
      let a ← asVec 16 a
      let b ← asVec 16 b
      pure (.vec (List.zipWith maxLane a b))
  | .mm256_xor_ps_self, [a] => do
      let _ ← asVec 8 a
      pure (.vec (List.replicate 8 zeroLane))
  | .mm256_blendv_ps, args => blendv 32 8 args
  | .mm256_blendv_pd, args => blendv 64 4 args
  | .mm256_cmp_ps, args => cmpLt 32 8 args
  | .mm256_cmp_pd, args => cmpLt 64 4 args
  | .mm256_hadd_ps, [a, b] => do
      let a ← asVec 8 a
      let b ← asVec 8 b
      match a, b with
      | [a0, a1, a2, a3, a4, a5, a6, a7], [b0, b1, b2, b3, b4, b5, b6, b7] =>
          pure (.vec [add2 a0 a1, add2 a2 a3, add2 b0 b1, add2 b2 b3,
                      add2 a4 a5, add2 a6 a7, add2 b4 b5, add2 b6 b7])
      | _, _ => throw .unsupported
  | .mm256_hadd_pd, [a, b] => do
      let a ← asVec 4 a
      let b ← asVec 4 b
      match a, b with
      | [a0, a1, a2, a3], [b0, b1, b2, b3] =>
          pure (.vec [add2 a0 a1, add2 b0 b1, add2 a2 a3, add2 b2 b3])
      | _, _ => throw .unsupported
  | .mm256_extractf128_ps, [a, .int k] => do
      let a ← asVec 8 a
      if k = 0 then pure (.vec (a.take 4)) else if k = 1 then pure (.vec (a.drop 4)) else throw .unsupported
  | .mm256_extractf128_pd, [a, .int k] => do
      let a ← asVec 4 a
      if k = 0 then pure (.vec (a.take 2)) else if k = 1 then pure (.vec (a.drop 2)) else throw .unsupported
  -- upper half undefined
  | .mm256_castps128_ps256, [a] => do
      let a ← asVec 4 a
      pure (.vec (a ++ List.replicate 4 none))
  | .mm256_castpd128_pd256, [a] => do
      let a ← asVec 2 a
      pure (.vec (a ++ List.replicate 2 none))
  | .mm256_cvtss_f32, [a] => do
      let a ← asVec 8 a
      pure (.flt (a.getD 0 none))
  | .mm256_cvtsd_f64, [a] => do
      let a ← asVec 4 a
      pure (.flt (a.getD 0 none))
  -- f32 → f64 is exact
  | .mm256_cvtps_pd, [a] => do
      let a ← asVec 4 a
      pure (.vec a)
  | .mm256_set_epi32, args => do
      let l ← allInts args
      if l.length = 8 then pure (.ivec 32 ((l.map (wrapS 32)).reverse)) else throw .unsupported
  | .mm256_set1_epi32, [.int n] => pure (.ivec 32 (List.replicate 8 (wrapS 32 n)))
  | .mm256_set1_epi8, [.int n] => pure (.ivec 8 (List.replicate 32 (wrapS 8 n)))
  | .mm256_cmpgt_epi32, [a, b] => do
      let a ← asIVec 32 8 a
      let b ← asIVec 32 8 b
      pure (.ivec 32 (List.zipWith (fun x y => if x > y then -1 else 0) a b))
  | .mm256_castsi256_ps, [.ivec w l] => pure (.ivec w l)
  | .mm256_maskload_ps, [p, m] => do
      let (b, o, _) ← asPtr p
      let m ← asSignMask 32 8 m
      let l ← loadMasked heap b o m zeroLane
      pure (.vec l)
  | _, _ => throw .unsupported

/-- statement-level intrinsics (stores, prefetch) -/
def storeIntrinsic (heap : Heap V) : Intr → List (CVal V) → Except Err (Heap V)
  | .mm256_storeu_ps, [p, v] => do
      let (b, o, _) ← asPtr p
      let l ← asVec 8 v
      storeContig heap b o l
  | .mm256_storeu_pd, [p, v] => do
      let (b, o, _) ← asPtr p
      let l ← asVec 4 v
      storeContig heap b o l
  | .mm512_storeu_ps, [p, v] => do
      let (b, o, _) ← asPtr p
      let l ← asVec 16 v
      storeContig heap b o l
  | .mm256_storeu_si256, [p, v] => do
      let (b, o, w) ← asPtr p
      if w = 0 then throw .unsupported
      let l ← asVec (256 / w) v
      storeContig heap b o l
  | .mm256_maskstore_ps, [p, m, v] => do
      let (b, o, _) ← asPtr p
      let m ← asSignMask 32 8 m
      let l ← asVec 8 v
      storeMasked heap b o m l
  | .mm512_mask_storeu_ps, [p, k, v] => do
      let (b, o, _) ← asPtr p
      let k ← asInt k
      let l ← asVec 16 v
      storeMasked heap b o (kMask 16 k) l
  | .mm_prefetch, [p, h] => do
      let _ ← asPtr p
      let _ ← asInt h
      pure heap
  | _, _ => throw .unsupported

def lanesOfTy : String → Option Nat
  | "__m256" => some 8
  | "__m256d" => some 4
  | "__m512" => some 16
  | _ => none

def kindOf (ks : List (Sym × ArgKind)) (x : Sym) : Option ArgKind := lookupSym x ks

/-- `1 << n` on C ints: defined only for 0 ≤ n < 31 (beyond: undefined behaviour); other bases
    are not used by x86.py and not modelled -/
def cShl (a n : Int) : Except Err Int :=
  if a = 1 ∧ 0 ≤ n ∧ n < 31 then pure (2 ^ n.toNat) else throw .unsupported

/-- `a - b` on C ints (x86.py only computes `(1 << N) - 1`, which cannot overflow) -/
def cSub (a b : Int) : Except Err Int := pure (a - b)

mutual
def evalE (ks : List (Sym × ArgKind)) (σ : State V) (loc : List (CVal V)) : CExp → Except Err (CVal V)
  | .data x => match kindOf ks x with
      | some (.vreg n) => match lookupSym x σ.views with
          | some v => do let l ← loadContig σ.heap v.buf v.off n; pure (.vec l)
          | none => throw .scope
      | some (.mem _) => match lookupSym x σ.views with
          | some v => do let l ← loadContig σ.heap v.buf v.off 1; pure (.flt (l.getD 0 none))
          | none => throw .scope
      | some .scalar => match lookupSym x σ.views with
          | some v => pure (.ptr v.buf v.off 0)
          | none => throw .scope
      | some .ctrl => match lookupSym x σ.env with
          | some n => pure (.int n)
          | none => throw .scope
      | none => throw .scope
  | .addr x => match kindOf ks x with
      | some (.mem w) => match lookupSym x σ.views with
          | some v => pure (.ptr v.buf v.off w)
          | none => throw .scope
      | _ => throw .unsupported
  | .name x => match kindOf ks x with
      | some .scalar => match lookupSym x σ.views with
          | some v => pure (.ptr v.buf v.off 0)
          | none => throw .scope
      | some .ctrl => match lookupSym x σ.env with
          | some n => pure (.int n)
          | none => throw .scope
      | _ => throw .unsupported
  | .var k => match loc[k]? with
      | some v => pure v
      | none => throw .scope
  | .int n => pure (.int n)
  | .flt n d => pure (.flt (some (DataAlg.ofRat n d)))
  | .cst c => pure (.cst c)
  | .call f args => do
      let vs ← evalEs ks σ loc args
      intrinsic σ.heap f vs
  | .shl a b => do
      let x ← evalE ks σ loc a
      let y ← evalE ks σ loc b
      let x ← asInt x
      let y ← asInt y
      let r ← cShl x y
      pure (.int r)
  | .sub a b => do
      let x ← evalE ks σ loc a
      let y ← evalE ks σ loc b
      let x ← asInt x
      let y ← asInt y
      let r ← cSub x y
      pure (.int r)
  | .init es => do
      let vs ← evalEs ks σ loc es
      let l ← allFlts vs
      pure (.vec l)
  | .zero ty => match lanesOfTy ty with
      | some n => pure (.vec (List.replicate n zeroLane))
      | none => throw .unsupported
  | .cast _ e => evalE ks σ loc e
def evalEs (ks : List (Sym × ArgKind)) (σ : State V) (loc : List (CVal V)) :
    List CExp → Except Err (List (CVal V))
  | [] => pure []
  | e :: r => do
      let v ← evalE ks σ loc e
      let vs ← evalEs ks σ loc r
      pure (v :: vs)
end

def execCStmt (ks : List (Sym × ArgKind)) (σ : State V) (loc : List (CVal V)) :
    CStmt → Except Err (State V × List (CVal V))
  | .assignOp x e => do
      let v ← evalE ks σ loc e
      match kindOf ks x with
      | some (.vreg n) => match lookupSym x σ.views with
          | some vw => do
              let l ← asVec n v
              let h ← storeContig σ.heap vw.buf vw.off l
              pure ({ σ with heap := h }, loc)
          | none => throw .scope
      | _ => throw .unsupported
  | .decl ty k e => do
      let v ← evalE ks σ loc e
      if k ≠ loc.length then throw .unsupported
      match lanesOfTy ty, v with
      | some n, .vec l => if l.length = n then pure (σ, loc ++ [v]) else throw .unsupported
      | some _, _ => throw .unsupported
      | none, _ => pure (σ, loc ++ [v])
  | .assignVar k e => do
      let v ← evalE ks σ loc e
      if k < loc.length then pure (σ, loc.set k v) else throw .scope
  | .eval (.call f args) => do
      let vs ← evalEs ks σ loc args
      let h ← storeIntrinsic σ.heap f vs
      pure ({ σ with heap := h }, loc)
  | .eval _ => throw .unsupported
  | .accum x e => do
      let v ← evalE ks σ loc e
      let v ← asFlt v
      match kindOf ks x with
      | some .scalar => match lookupSym x σ.views with
          | some vw => do
              let old ← loadContig σ.heap vw.buf vw.off 1
              let h ← storeContig σ.heap vw.buf vw.off [add2 (old.getD 0 none) v]
              pure ({ σ with heap := h }, loc)
          | none => throw .scope
      | _ => throw .unsupported
  | .opaque _ => throw .unsupported

def execCStmts (ks : List (Sym × ArgKind)) : List CStmt → State V → List (CVal V) → Except Err (State V)
  | [], σ, _ => pure σ
  | s :: r, σ, loc => do
      let (σ', loc') ← execCStmt ks σ loc s
      execCStmts ks r σ' loc'

/-- what the C fragment of instruction `I` does to a state whose views / environment bind the
    instruction's formal arguments -/
def execCInstr (I : Instr) (σ : State V) : Except Err (State V) :=
  execCStmts I.kinds I.cinstr σ []

end

/-! ### states that bind an instruction's formals to a placement -/

structure Place where
  buf : Nat
  off : Int
  stride : Int
deriving Repr, Inhabited

section
variable {V : Type}

def shapeVal (env : List (Sym × Int)) (e : Expr) : Int :=
  match evalC ({ env := env, views := [], heap := [], cfg := [] } : State Unit) e with
  | .ok n => n
  | .error _ => 0

def mkEnv (cv : Sym → Int) : List FnArg → List (Sym × Int)
  | [] => []
  | ⟨x, .ctrl _⟩ :: r => (x, cv x) :: mkEnv cv r
  | _ :: r => mkEnv cv r

def mkViews (env : List (Sym × Int)) (pl : Sym → Place) : List FnArg → List (Sym × View)
  | [] => []
  | ⟨x, .tensor [e] _⟩ :: r =>
      (x, { buf := (pl x).buf, off := (pl x).off, dims := [(shapeVal env e, (pl x).stride)] }) ::
        mkViews env pl r
  | ⟨x, .scalar⟩ :: r => (x, { buf := (pl x).buf, off := (pl x).off, dims := [] }) :: mkViews env pl r
  | _ :: r => mkViews env pl r

/-- the callee state `execP` builds for a call of `p` whose control arguments evaluate to `cv`
    and whose (at most one-dimensional) operands are placed at `pl` -/
def stateOf (p : Proc) (cv : Sym → Int) (pl : Sym → Place) (heap : Heap V)
    (cfg : List ((String × String) × CfgVal V)) : State V :=
  { env := mkEnv cv p.args, views := mkViews (mkEnv cv p.args) pl p.args, heap := heap, cfg := cfg }

def sizesPositive (env : List (Sym × Int)) : List FnArg → Prop
  | [] => True
  | ⟨x, .ctrl .size⟩ :: r => (∀ n, lookupSym x env = some n → 0 < n) ∧ sizesPositive env r
  | _ :: r => sizesPositive env r

/-- every index tuple the view admits lands inside its buffer -/
def viewInBounds (heap : Heap V) (v : View) : Prop :=
  ∀ is o, viewOffset v.dims is v.off = .ok o → 0 ≤ o ∧ o < bufLen heap v.buf

def allViewsInBounds (heap : Heap V) : List (Sym × View) → Prop
  | [] => True
  | (_, v) :: r => viewInBounds heap v ∧ allViewsInBounds heap r

/-- every cell of every operand holds a value -/
def allViewsInit (heap : Heap V) : List (Sym × View) → Prop
  | [] => True
  | (_, v) :: r => (∀ is o, viewOffset v.dims is v.off = .ok o → (heapGet heap (v.buf, o.toNat)).isSome) ∧
      allViewsInit heap r

/-- the conditions under which `execP` runs the body of `p` in state `σ` (sizes positive,
    declared shapes, assertions, no aliasing) + every operand window lies inside its buffer -/
structure Admissible (p : Proc) (σ : State V) : Prop where
  sizes : sizesPositive σ.env p.args
  shapes : checkShapes σ p.args = .ok ()
  preds : checkPreds σ p.preds = .ok ()
  noalias : noAlias σ.views = true
  inb : allViewsInBounds σ.heap σ.views

end

/-- **C14 for one instruction**: for every lawful data algebra, every meaning of the externs that
    is the fixed one on relu/select, all control values, all placements of the operands
    (buffer, offset, stride) and all heap contents such that `execP` would run the body
    (`Admissible`): running the specification body and running the C fragment give the same
    result (same final heap, or the same error). -/
def InstrCorrect (I : Instr) : Prop :=
  ∀ {V : Type} [LawfulDataAlg V] (ext : String → List V → V), LawfulExt ext →
  ∀ (cv : Sym → Int) (pl : Sym → Place) (heap : Heap V) (cfg : List ((String × String) × CfgVal V)),
    Admissible I.proc (stateOf I.proc cv pl heap cfg) →
    execB ext I.proc.body (stateOf I.proc cv pl heap cfg) = execCInstr I (stateOf I.proc cv pl heap cfg)

/-- the same under an extra condition on the control arguments (used by `_partial` theorems) -/
def InstrCorrectWhen (I : Instr) (extra : (Sym → Int) → Prop) : Prop :=
  ∀ {V : Type} [LawfulDataAlg V] (ext : String → List V → V), LawfulExt ext →
  ∀ (cv : Sym → Int) (pl : Sym → Place) (heap : Heap V) (cfg : List ((String × String) × CfgVal V)),
    extra cv →
    Admissible I.proc (stateOf I.proc cv pl heap cfg) →
    execB ext I.proc.body (stateOf I.proc cv pl heap cfg) = execCInstr I (stateOf I.proc cv pl heap cfg)

/-- the same, for heaps in which every operand cell is initialised -/
def InstrCorrectInit (I : Instr) : Prop :=
  ∀ {V : Type} [LawfulDataAlg V] (ext : String → List V → V), LawfulExt ext →
  ∀ (cv : Sym → Int) (pl : Sym → Place) (heap : Heap V) (cfg : List ((String × String) × CfgVal V)),
    Admissible I.proc (stateOf I.proc cv pl heap cfg) →
    allViewsInit heap (stateOf I.proc cv pl heap cfg).views →
    execB ext I.proc.body (stateOf I.proc cv pl heap cfg) = execCInstr I (stateOf I.proc cv pl heap cfg)

end Exo.X86
