/-
  ExoModel.Nav — executable model of the *navigation* part of exo's cursors
  (src/exo/core/internal_cursors.py: Node / Block / Gap — parent, _child_node, _child_block,
  next, prev, before, after, anchor, as_block, Block.__getitem__ (int and slice), __len__,
  __iter__, expand, Gap._insertion_index) and of the thin public layer on top of it
  (src/exo/API_cursors.py: Cursor.parent skipping w_access nodes / InvalidCursor at the proc,
  StmtCursor.next/prev turning InvalidCursorError into InvalidCursor, lift_cursor's non-empty
  assertion, BlockCursor.expand's ValueError on negative deltas).

  The tree is generic: a node has a tag (the LoopIR class name) and fields; a field holds either
  one child (`getattr(n, attr)` is a node) or a list of children.  The harness exports *every*
  node-valued / list-of-node-valued attribute of the real LoopIR objects, so the model navigates
  exactly the structure `Node._node` walks (`getattr` then optional `[idx]`).

  Everything is mirrored literally, including Python's `range` indexing rules (negative indices,
  clamping slices, `range(5,3)` kept as is), and the exception classes.
-/
namespace Exo.Nav

abbrev Step := String × Option Nat
abbrev Path := List Step

/-- `fields`: (attribute name, is it a list attribute, children).  A non-list attribute has exactly
    one child. -/
inductive NTree where
  | mk (tag : String) (fields : List (String × Bool × List NTree))
deriving Repr, Inhabited

def NTree.tag : NTree → String | .mk t _ => t
def NTree.fields : NTree → List (String × Bool × List NTree) | .mk _ f => f

/-- `getattr(node, attr)` -/
def NTree.getField (t : NTree) (attr : String) : Option (Bool × List NTree) :=
  t.fields.lookup attr

/-- one iteration of the loop in `Node._node` -/
def resolveStep (t : NTree) (s : Step) : Option NTree :=
  match t.getField s.1, s.2 with
  | some (false, c :: _), none => some c
  | some (true, cs), some i => cs[i]?
  | _, _ => none

/-- `Node._node` -/
def resolve (t : NTree) : Path → Option NTree
  | [] => some t
  | s :: p => match resolveStep t s with
    | some c => resolve c p
    | none => none

def Valid (t : NTree) (p : Path) : Prop := (resolve t p).isSome

inductive GapType | before | after
deriving DecidableEq, Repr, Inhabited

inductive Cursor where
  | node (path : Path)
  | block (anchor : Path) (attr : String) (lo hi : Int)    -- `_range = range(lo, hi)`
  | gap (anchor : Path) (ty : GapType)
deriving DecidableEq, Repr, Inhabited

/-- exception classes raised by the navigation code -/
inductive Err
  | invalidCursor   -- InvalidCursorError
  | index           -- IndexError
  | value           -- ValueError
  | type            -- TypeError
  | attribute       -- AttributeError
  | assertion       -- AssertionError
deriving DecidableEq, Repr, Inhabited

abbrev R := Except Err

instance {ε α : Type} [DecidableEq ε] [DecidableEq α] : DecidableEq (Except ε α) := fun a b =>
  match a, b with
  | .ok x, .ok y => if h : x = y then isTrue (by rw [h]) else isFalse (by intro e; cases e; exact h rfl)
  | .error x, .error y => if h : x = y then isTrue (by rw [h]) else isFalse (by intro e; cases e; exact h rfl)
  | .ok _, .error _ => isFalse (by intro e; cases e)
  | .error _, .ok _ => isFalse (by intro e; cases e)

/-! ### Node -/

/-- `Node.parent` -/
def parent (p : Path) : R Path :=
  if p = [] then throw .invalidCursor else pure p.dropLast

/-- `Node._child_node(attr, i)` -/
def childNode (t : NTree) (p : Path) (attr : String) (i : Option Int) : R Path :=
  match resolve t p with
  | none => throw .attribute
  | some n =>
    match n.getField attr with
    | none => throw .attribute
    | some (isList, cs) =>
      match i with
      | some i =>
        if !isList then throw .type            -- len(<node>)
        else if 0 ≤ i ∧ i < (cs.length : Int) then pure (p ++ [(attr, some i.toNat)])
        else throw .invalidCursor
      | none =>
        if isList then throw .value
        else match cs with
          | _ :: _ => pure (p ++ [(attr, none)])
          | [] => throw .attribute            -- (a non-list attribute always has its one child)

/-- `Node._child_block(attr)` -/
def childBlock (t : NTree) (p : Path) (attr : String) : R Cursor :=
  match resolve t p with
  | none => throw .attribute
  | some n =>
    match n.getField attr with
    | none => throw .attribute
    | some (isList, cs) =>
      if isList then pure (.block p attr 0 cs.length) else throw .assertion

/-- `Node.next(dist)`;  `prev(dist) = next(-dist)` -/
def next (t : NTree) (p : Path) (d : Int) : R Path :=
  match p.getLast? with
  | none => throw .invalidCursor
  | some (_, none) => throw .invalidCursor
  | some (attr, some i) => childNode t p.dropLast attr (some ((i : Int) + d))

def prev (t : NTree) (p : Path) (d : Int) : R Path := next t p (-d)

/-- `Node.as_block` -/
def asBlock (p : Path) : R Cursor :=
  match p.getLast? with
  | none => throw .index                       -- `self._path[-1]` on the root
  | some (_, none) => throw .invalidCursor
  | some (attr, some i) => pure (.block p.dropLast attr i (i + 1))

def before (p : Path) : Cursor := .gap p .before
def after (p : Path) : Cursor := .gap p .after

/-- `Node.is_ancestor_of` / `_starts_with` -/
def isAncestorOf (p q : Path) : Bool := p.isPrefixOf q

/-! ### Block: Python `range` rules -/

/-- `len(range(lo, hi))` -/
def rangeLen (lo hi : Int) : Int := if hi ≤ lo then 0 else hi - lo

/-- `range(lo,hi)[i]` for an int `i` -/
def rangeGet (lo hi i : Int) : R Int :=
  let n := rangeLen lo hi
  let i' := if i < 0 then i + n else i
  if i' < 0 ∨ n ≤ i' then throw .index else pure (lo + i')

/-- `slice(a, b).indices(n)` for step 1: start -/
def sliceStart (n : Int) : Option Int → Int
  | none => 0
  | some s => if s < 0 then max (s + n) 0 else min s n

def sliceStop (n : Int) : Option Int → Int
  | none => n
  | some e => if e < 0 then max (e + n) 0 else min e n

/-- `Block.__len__` -/
def blockLen : Cursor → Int
  | .block _ _ lo hi => rangeLen lo hi
  | _ => 0

/-- `Block.__getitem__(i)` with an int -/
def blockGet (t : NTree) (anchor : Path) (attr : String) (lo hi : Int) (i : Int) : R Path := do
  let r ← rangeGet lo hi i
  childNode t anchor attr (some r)

/-- `Block.__getitem__(slice(a, b, step))` -/
def blockSlice (anchor : Path) (attr : String) (lo hi : Int) (a b step : Option Int) : R Cursor :=
  match step with
  | some 0 => throw .value                      -- slice step cannot be zero
  | some 1 | none =>
    let n := rangeLen lo hi
    pure (.block anchor attr (lo + sliceStart n a) (lo + sliceStop n b))
  | some _ => throw .index                      -- "block cursors must be contiguous"

/-- `Block.__iter__` (list of results, stops at first error like a Python generator would raise) -/
def blockIter (t : NTree) (anchor : Path) (attr : String) (lo hi : Int) : List (R Path) :=
  (List.range (rangeLen lo hi).toNat).map fun (k : Nat) => childNode t anchor attr (some (lo + (k : Int)))

/-- `Block.expand(delta_lo, delta_hi)` -/
def expand (t : NTree) (anchor : Path) (attr : String) (lo hi : Int) (dlo dhi : Option Int) : R Cursor := do
  let full ← childBlock t anchor attr
  let n := blockLen full
  let dlo := dlo.getD lo
  let dhi := dhi.getD (n - hi)
  pure (.block anchor attr (max 0 (lo - dlo)) (min n (hi + dhi)))

/-- `Block.before` = `self[0].before()` -/
def blockBefore (t : NTree) (anchor : Path) (attr : String) (lo hi : Int) : R Cursor := do
  let p ← blockGet t anchor attr lo hi 0
  pure (before p)

/-- `Block.after` = `self[-1].after()` -/
def blockAfter (t : NTree) (anchor : Path) (attr : String) (lo hi : Int) : R Cursor := do
  let p ← blockGet t anchor attr lo hi (-1)
  pure (after p)

/-! ### Gap -/

/-- `Gap._insertion_index` -/
def insertionIndex (anchor : Path) (ty : GapType) : R Int :=
  match anchor.getLast? with
  | none => throw .index
  | some (_, none) => throw .type          -- `None + 1` (After) — Before returns None; kept coarse
  | some (_, some i) => pure (match ty with | .before => (i : Int) | .after => (i : Int) + 1)

/-- `Cursor.parent` for any internal cursor (`Gap.parent` with a non-edge type) -/
def cursorParent : Cursor → R Path
  | .node p => parent p
  | .block a _ _ _ => pure a
  | .gap a _ => parent a

/-- `Gap.anchor` -/
def gapAnchor : Cursor → R Path
  | .gap a _ => pure a
  | _ => throw .attribute

/-! ### public layer (API_cursors.py) -/

/-- result of a public navigation call -/
inductive Pub where
  | cur (c : Cursor)
  | invalid                 -- `InvalidCursor()`
deriving DecidableEq, Repr, Inhabited

def isWAccessTag (s : String) : Bool := s == "Interval" || s == "Point"

/-- the node classes `lift_cursor` has a public cursor class for (fnarg, statements, expressions);
    anything else (proc, types, w_access, loop modes) is `assert False, "bad case"` -/
def isLiftableTag (s : String) : Bool :=
  ["fnarg", "Assign", "Reduce", "WriteConfig", "Pass", "If", "For", "Alloc", "Call", "WindowStmt",
   "Read", "ReadConfig", "Const", "USub", "BinOp", "Extern", "WindowExpr", "StrideExpr"].contains s

/-- `lift_cursor` as far as navigation is concerned: blocks must be non-empty, the proc node has no
    public cursor class ("bad case") -/
def lift (t : NTree) : Cursor → R Pub
  | .block a attr lo hi => if rangeLen lo hi > 0 then pure (.cur (.block a attr lo hi)) else throw .assertion
  | .node p =>
    match resolve t p with
    | some n => if isLiftableTag n.tag then pure (.cur (.node p)) else throw .assertion   -- "bad case"
    | none => throw .attribute
  | c => pure (.cur c)

/-- `Cursor.parent` of API_cursors.py -/
def pubParent (t : NTree) (c : Cursor) : R Pub := do
  let ip ← cursorParent c
  match resolve t ip with
  | none => throw .attribute
  | some n =>
    if isWAccessTag n.tag then do
      let ip2 ← parent ip
      lift t (.node ip2)
    else if n.tag == "proc" then pure .invalid
    else lift t (.node ip)

/-- `StmtCursor.next(dist)` / `prev(dist)` -/
def pubNext (t : NTree) (p : Path) (d : Int) : R Pub :=
  match next t p d with
  | .ok q => lift t (.node q)
  | .error .invalidCursor => pure .invalid
  | .error e => throw e

def pubPrev (t : NTree) (p : Path) (d : Int) : R Pub :=
  match prev t p d with
  | .ok q => lift t (.node q)
  | .error .invalidCursor => pure .invalid
  | .error e => throw e

def negDelta : Option Int → Bool
  | some d => decide (d < 0)
  | none => false

/-- `BlockCursor.expand` -/
def pubExpand (t : NTree) (anchor : Path) (attr : String) (lo hi : Int) (dlo dhi : Option Int) : R Pub :=
  if negDelta dlo then throw .value
  else if negDelta dhi then throw .value
  else do
    let b ← expand t anchor attr lo hi dlo dhi
    pure (.cur b)                                -- `BlockCursor(...)` directly, no lift

/-- `ListCursorPrototype.__getitem__` with an int -/
def pubBlockGet (t : NTree) (anchor : Path) (attr : String) (lo hi : Int) (i : Int) : R Pub := do
  let p ← blockGet t anchor attr lo hi i
  lift t (.node p)

/-- `ListCursorPrototype.__getitem__` with a slice -/
def pubBlockSlice (t : NTree) (anchor : Path) (attr : String) (lo hi : Int) (a b step : Option Int) : R Pub := do
  let c ← blockSlice anchor attr lo hi a b step
  lift t c

/-- `BlockCursor.anchor` (= lifted `Block.parent`) -/
def pubBlockAnchor (t : NTree) (anchor : Path) : R Pub := lift t (.node anchor)

/-! ### enumeration of all positions (used by the driver and by the theorems' examples) -/

mutual
  def allPaths (p : Path) : NTree → List Path
    | .mk _ fs => p :: allPathsFields p fs
  def allPathsFields (p : Path) : List (String × Bool × List NTree) → List Path
    | [] => []
    | (attr, isList, cs) :: rest =>
      (if isList then allPathsList p attr 0 cs
       else match cs with
         | c :: _ => allPaths (p ++ [(attr, none)]) c
         | [] => [])
      ++ allPathsFields p rest
  def allPathsList (p : Path) (attr : String) (k : Nat) : List NTree → List Path
    | [] => []
    | c :: cs => allPaths (p ++ [(attr, some k)]) c ++ allPathsList p attr (k + 1) cs
end

end Exo.Nav
