/-
  ExoModel.SigOps — executable models of exo's signature- and annotation-changing utilities
  (property C19), over the LoopIR mirror `ExoModel.Syntax`.

  * `partialEval`   — `Procedure.partial_eval` (src/exo/API.py:319-341) + `DoPartialEval`
                      (src/exo/rewrite/LoopIR_scheduling.py:933-965) + the part of
                      `LoopIR_Rewrite.map_proc` (src/exo/core/LoopIR.py:665-679) it runs through
  * `transposeArg`  — `Procedure.transpose` (API.py:343-348) = `DoRearrangeDim(arg, [1, 0])`
                      (LoopIR_scheduling.py:1685-1761)
  * `addAssertion`  — `Procedure.add_assertion` (API.py:350-361), after parsing
  * `rename`        — `rename` (API_scheduling.py:801)
  * `setLoopPar`    — `parallelize_loop` (API_scheduling.py:897) = `DoParallelizeLoop`
  * `setWindow`     — `set_window` (API_scheduling.py:1148) = `DoSetTypAndMem(win=…)`
  * `make_instr`, `set_precision`, `set_memory` change fields (`instr`, base types, memories)
    that the mirror does not have — the exporter drops them — so their model is the identity
    (`annotId`); the check compares the exported JSON of the real result with the input.

  The models do what the Python code does, including:
  * `map_proc` drops every predicate that is a constant with a truthy value — but only if the
    rewrite changed anything at all (`changed`);
  * `DoRearrangeDim` does not visit the procedure's predicates (a `stride(a, d)` in an assertion
    keeps its dimension number; see `Props/C19.transpose_preds_stale`);
  * `set_window(…, False)` falls through `elif win:` and crashes (`Rej.crash`).
-/
import ExoModel.Subst

namespace Exo.SigOps
open Exo

/-- why a utility refuses its arguments (class of the Python exception) -/
inductive Rej
  | unknownArg      -- KeyError / no such argument
  | notControl      -- SchedulingError: cannot partially evaluate numeric arguments
  | notTensor2D     -- TypeError: expected a 2D argument cursor
  | passedToCall    -- SchedulingError: buffer passed as a sub-procedure argument
  | windowIntervals -- SchedulingError: permuting the window would change its meaning
  | badPath         -- cursor does not denote a loop / argument
  | crash           -- the Python code raises an internal error on this input
deriving DecidableEq, Repr, Inhabited

instance : ToString Rej := ⟨fun r => match r with
  | .unknownArg => "unknownArg" | .notControl => "notControl" | .notTensor2D => "notTensor2D"
  | .passedToCall => "passedToCall" | .windowIntervals => "windowIntervals"
  | .badPath => "badPath" | .crash => "crash"⟩

/-! ## partial_eval -/

def findArg (x : Sym) : List FnArg → Option FnArg
  | [] => none
  | a :: r => if a.name = x then some a else findArg x r

/-- the literal `DoPartialEval.map_e` puts for an argument of this type: `Const(v, T.int)` for
    `size`/`index`/`int` (`is_indexable`), `Const(v, T.bool)` for `bool`; `stride` and numeric
    arguments are refused -/
def litFor : ArgTy → Int → Option Expr
  | .ctrl .bool, v => some (.lit (.bool (v != 0)))
  | .ctrl .stride, _ => none
  | .ctrl _, v => some (.lit (.int v))
  | _, _ => none

def FnArg.subst (x : Sym) (r : Expr) (a : FnArg) : FnArg := ⟨a.name, ArgTy.subst x r a.ty⟩

/-- one substitution over the whole procedure: tensor extents of the signature, predicates, body
    (callee bodies are separate scopes and are not entered) -/
def substProc (x : Sym) (r : Expr) : Proc → Proc
  | .mk nm args preds body =>
      .mk nm (args.map (FnArg.subst x r)) (substCs x r preds) (substL x r body)

/-- does the rewrite change anything (`map_proc` returns `None` otherwise) -/
def occProc (x : Sym) : Proc → Bool
  | .mk _ args preds body => args.any (fun a => a.ty.occ x) || occCs x preds || occL x body

/-- truthiness of a constant predicate.  Predicates are boolean control expressions, so a data
    literal cannot be one (the front end rejects it); the model keeps such a predicate. -/
def Lit.truthy : Lit → Bool
  | .int n => n != 0
  | .bool b => b
  | .data _ _ => false

/-- `isinstance(p, LoopIR.Const) and p.val` -/
def isTrueConst : Expr → Bool
  | .lit l => Lit.truthy l
  | _ => false

/-- look the names up and choose the literals; all names are resolved first (API.py builds the
    `Sym`-keyed dict before `DoPartialEval` validates the types) -/
def resolveNames (args : List FnArg) : List (Sym × Int) → Except Rej (List (FnArg × Int))
  | [] => pure []
  | (x, v) :: r => match findArg x args with
      | none => throw .unknownArg
      | some a => do let rest ← resolveNames args r; pure ((a, v) :: rest)

def chooseLits : List (FnArg × Int) → Except Rej (List (Sym × Expr))
  | [] => pure []
  | (a, v) :: r => match litFor a.ty v with
      | none => throw .notControl
      | some l => do let rest ← chooseLits r; pure ((a.name, l) :: rest)

def substAll (lits : List (Sym × Expr)) (p : Proc) : Proc :=
  lits.foldl (fun q xl => substProc xl.1 xl.2 q) p

def dropArgs (lits : List (Sym × Expr)) (args : List FnArg) : List FnArg :=
  args.filter (fun a => !(lits.any (fun xl => xl.1 = a.name)))

/-- the procedure after the literals have been chosen -/
def partialEvalLits (p : Proc) (lits : List (Sym × Expr)) : Proc :=
  let changed := lits.any (fun xl => occProc xl.1 p)
  let q := substAll lits p
  let preds := if changed then q.preds.filter (fun e => !isTrueConst e) else q.preds
  .mk q.name (dropArgs lits q.args) preds q.body

def partialEval (p : Proc) (vals : List (Sym × Int)) : Except Rej Proc := do
  let named ← resolveNames p.args vals
  let lits ← chooseLits named
  pure (partialEvalLits p lits)

/-- the value an argument is fixed to, as the body sees it: booleans are 0/1 -/
def normVal (args : List FnArg) (x : Sym) (v : Int) : Int :=
  match findArg x args with
  | some ⟨_, .ctrl .bool⟩ => b2i (v != 0)
  | _ => v

def normVals (args : List FnArg) (vals : List (Sym × Int)) : List (Sym × Int) :=
  vals.map (fun xv => (xv.1, normVal args xv.1 xv.2))

/-! ## parallelize_loop -/

def markPar : Stmt → Option Stmt
  | .loop i lo hi b _ => some (.loop i lo hi b true)
  | _ => none

/-- cursor path = list of `(in the orelse block?, index)` steps as in `Cursor._path`; the first
    component of the head step was consumed by the parent (the root block is `proc.body`) -/
def setParL : List (Bool × Nat) → List Stmt → Option (List Stmt)
  | [], _ => none
  | [(_, k)], B => match B[k]? with
      | some s => (markPar s).map (fun s' => B.set k s')
      | none => none
  | (_, k) :: (o, k') :: rest, B => match B[k]? with
      | some (.loop i lo hi b p) =>
          if o then none
          else (setParL ((o, k') :: rest) b).map (fun b' => B.set k (.loop i lo hi b' p))
      | some (.ite c t e) =>
          if o then (setParL ((o, k') :: rest) e).map (fun e' => B.set k (.ite c t e'))
          else (setParL ((o, k') :: rest) t).map (fun t' => B.set k (.ite c t' e))
      | _ => none

def setLoopPar (p : Proc) (path : List (Bool × Nat)) : Except Rej Proc :=
  match setParL path p.body with
  | some b => pure (.mk p.name p.args p.preds b)
  | none => throw .badPath

/-! ## rename, add_assertion, set_window, and the annotations the mirror does not carry -/

def rename (p : Proc) (nm : String) : Proc := .mk nm p.args p.preds p.body

def addAssertion (p : Proc) (e : Expr) : Proc := .mk p.name p.args (p.preds ++ [e]) p.body

def setWinArgs (a : Sym) (w : Bool) : List FnArg → Option (List FnArg)
  | [] => none
  | ⟨x, ty⟩ :: r =>
      if x = a then
        match ty with
        | .tensor sh _ => some (⟨x, .tensor sh w⟩ :: r)
        | _ => none
      else (setWinArgs a w r).map (⟨x, ty⟩ :: ·)

/-- `set_window(p, a, w)`: `DoSetTypAndMem(cursor, win=w)` tests `elif win:`, so `w = False`
    reaches `return cursor._child_node("mem")._replace(None)`-less fall-through and the caller's
    tuple unpacking raises `TypeError` -/
def setWindow (p : Proc) (a : Sym) (w : Bool) : Except Rej Proc :=
  if !w then throw .crash else
  match setWinArgs a w p.args with
  | some args => pure (.mk p.name args p.preds p.body)
  | none => throw .badPath

/-- `make_instr`, `set_precision`, `set_memory`: the changed fields are not part of the mirror -/
def annotId (p : Proc) : Proc := p

/-! ## transpose -/

/-- `[es[i] for i in [1, 0]]` on the two coordinates of a 2-D access -/
def swap2 {α : Type} : List α → List α
  | [a, b] => [b, a]
  | l => l

/-- `all_permute[name].index(e.dim)` for the permutation `[1, 0]` -/
def swapDim (d : Nat) : Nat := if d = 0 then 1 else if d = 1 then 0 else d

/-- control position: only `stride(a, d)` mentions the buffer -/
def trC (a : Sym) : Expr → Expr
  | .stride x d => if x = a then .stride x (swapDim d) else .stride x d
  | .usub e => .usub (trC a e)
  | .binop op l r => .binop op (trC a l) (trC a r)
  | e => e

def trCs (a : Sym) (es : List Expr) : List Expr := es.map (trC a)

mutual
/-- data position -/
def trD (a : Sym) : Expr → Expr
  | .read x idx => if x = a then .read x (swap2 (trCs a idx)) else .read x (trCs a idx)
  | .usub e => .usub (trD a e)
  | .binop op l r => .binop op (trD a l) (trD a r)
  | .extern f args => .extern f (trDs a args)
  | e => e
def trDs (a : Sym) : List Expr → List Expr
  | [] => []
  | e :: es => trD a e :: trDs a es
end

def trAcc (a : Sym) : WAcc → WAcc
  | .interval lo hi => .interval (trC a lo) (trC a hi)
  | .point e => .point (trC a e)

def _root_.Exo.WAcc.isInterval : WAcc → Bool
  | .interval _ _ => true
  | .point _ => false

/-- view position (window right-hand sides) -/
def trV (a : Sym) : Expr → Expr
  | .read x idx => if x = a then .read x (swap2 (trCs a idx)) else .read x (trCs a idx)
  | .win x acc => if x = a then .win x (swap2 (acc.map (trAcc a))) else .win x (acc.map (trAcc a))
  | e => e

def trArgs (a : Sym) : List FnArg → List Expr → List Expr
  | ⟨_, .ctrl _⟩ :: fs, e :: es => trC a e :: trArgs a fs es
  | _ :: fs, e :: es => trV a e :: trArgs a fs es
  | _, es => es

mutual
def trS (a : Sym) : Stmt → Stmt
  | .assign x idx rhs =>
      .assign x (if x = a then swap2 (trCs a idx) else trCs a idx) (trD a rhs)
  | .reduce x idx rhs =>
      .reduce x (if x = a then swap2 (trCs a idx) else trCs a idx) (trD a rhs)
  | .writecfg c f rhs isData => .writecfg c f (if isData then trD a rhs else trC a rhs) isData
  | .pass => .pass
  | .ite c t e => .ite (trC a c) (trL a t) (trL a e)
  | .loop i lo hi body par => .loop i (trC a lo) (trC a hi) (trL a body) par
  | .alloc x shape => .alloc x (trCs a shape)
  | .free x => .free x
  | .call f args => .call f (trArgs a f.args args)
  | .window x rhs => .window x (trV a rhs)
def trL (a : Sym) : List Stmt → List Stmt
  | [] => []
  | s :: ss => trS a s :: trL a ss
end

/-- the accesses `DoRearrangeDim` refuses -/
def headSym : Expr → Option Sym
  | .read x _ => some x
  | .win x _ => some x
  | _ => none

/-- a window of `a` is refused unless at most one coordinate is an interval
    (`check_permute_window` with the permutation `[1, 0]`) -/
def winOk (a : Sym) : Expr → Bool
  | .win x acc => x != a || (acc.filter WAcc.isInterval).length ≤ 1
  | .read x idx => x != a || !idx.isEmpty   -- `w = a` is not LoopIR (a WindowStmt holds a WindowExpr)
  | _ => true

/-- buffer-position call arguments must not be (an access of) `a` -/
def argsOk (a : Sym) : List FnArg → List Expr → Bool
  | ⟨_, .ctrl _⟩ :: fs, _ :: es => argsOk a fs es
  | _ :: fs, e :: es => headSym e != some a && argsOk a fs es
  | _, _ => true

mutual
def passedS (a : Sym) : Stmt → Bool
  | .ite _ t e => passedL a t || passedL a e
  | .loop _ _ _ body _ => passedL a body
  | .call f args => !argsOk a f.args args
  | _ => false
def passedL (a : Sym) : List Stmt → Bool
  | [] => false
  | s :: ss => passedS a s || passedL a ss
end

mutual
def badWinS (a : Sym) : Stmt → Bool
  | .ite _ t e => badWinL a t || badWinL a e
  | .loop _ _ _ body _ => badWinL a body
  | .window _ rhs => !winOk a rhs
  | _ => false
def badWinL (a : Sym) : List Stmt → Bool
  | [] => false
  | s :: ss => badWinS a s || badWinL a ss
end

def trArgList (a : Sym) : List FnArg → Option (List FnArg)
  | [] => none
  | ⟨x, ty⟩ :: r =>
      if x = a then
        match ty with
        | .tensor [e0, e1] w => some (⟨x, .tensor [e1, e0] w⟩ :: r)
        | _ => none
      else (trArgList a r).map (⟨x, ty⟩ :: ·)

/-- `p.transpose(a)`: swap the two extents of the argument and the two coordinates of every
    access, window and `stride` expression of it in the body.  The predicates are *not* visited
    (as in `DoRearrangeDim`, which walks `decl_cursor.root().body()` only). -/
def transposeArg (p : Proc) (a : Sym) : Except Rej Proc :=
  match findArg a p.args with
  | none => throw .unknownArg
  | some _ =>
    match trArgList a p.args with
    | none => throw .notTensor2D
    | some args =>
      if passedL a p.body then throw .passedToCall
      else if badWinL a p.body then throw .windowIntervals
      else pure (.mk p.name args p.preds (trL a p.body))

/-! ## side conditions of the `transpose` theorems -/

mutual
/-- `a` is declared again (by an allocation or a window statement) inside the statement; exo's
    `Sym`s are unique, so this never happens for an argument -/
def defsS (a : Sym) : Stmt → Bool
  | .alloc x _ => x = a
  | .window x _ => x = a
  | .ite _ t e => defsL a t || defsL a e
  | .loop _ _ _ body _ => defsL a body
  | _ => false
def defsL (a : Sym) : List Stmt → Bool
  | [] => false
  | s :: ss => defsS a s || defsL a ss
end

/-- control expression without `stride(a, ·)` -/
def strideFree (a : Sym) : Expr → Bool
  | .stride x _ => x != a
  | .usub e => strideFree a e
  | .binop _ l r => strideFree a l && strideFree a r
  | _ => true

def _root_.Exo.ArgTy.shape : ArgTy → List Expr
  | .tensor sh _ => sh
  | _ => []

/-- every view bound to `a` is two-dimensional -/
def Is2D (a : Sym) (vs : List (Sym × View)) : Prop :=
  ∀ w, lookupSym a vs = some w → w.dims.length = 2

/-! ## running a procedure on an initial state, and the state on the other side of `transpose` -/

variable {V : Type}

/-- what the reference driver (`Drivers/Sem.lean`, `runOne`) does with a procedure and an initial
    state binding its arguments: check declared shapes, assertions and aliasing, then run the body
    in its own scope.  (The driver additionally rejects non-positive `size` arguments.) -/
def run [DataAlg V] (ext : String → List V → V) (p : Proc) (σ : State V) : Except Err (State V) := do
  checkShapes σ p.args
  checkPreds σ p.preds
  if !noAlias σ.views then throw .alias
  execB ext p.body σ

/-- values bound by a list of chosen literals -/
def litVals (lits : List (Sym × Expr)) : List (Sym × Int) := lits.map (fun xl => (xl.1, xl.2.ctrlLitVal))

def _root_.Exo.View.swap (w : View) : View := { w with dims := swap2 w.dims }

def trViews (a : Sym) (vs : List (Sym × View)) : List (Sym × View) :=
  vs.map (fun yw => if yw.1 = a then (yw.1, View.swap yw.2) else yw)

/-- the same buffers with every view named `a` transposed (extents and strides swapped) -/
def _root_.Exo.State.tr (σ : State V) (a : Sym) : State V := { σ with views := trViews a σ.views }

end Exo.SigOps
