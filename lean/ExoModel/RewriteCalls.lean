/-
  ExoModel.RewriteCalls — the call primitives `inline` and `extract_subproc` as local rewrites
  (`Rw.Local`, applied by `Rw.rewriteAt`), for property C01.

  * `inlineCall`      `f(args) :: r  ↦  inline f args ++ r` — literally what `DoInline`
                      (src/exo/rewrite/LoopIR_scheduling.py:935-964) builds, with `Inline.inline` the
                      model of C05: window actuals become window statements `formal = actual` IN FRONT
                      of the substituted body (`win_binds + body`), every other actual is substituted
                      (`SubstArgs`).  The real code then renames every binder of the spliced block to a
                      fresh copy (`Alpha_Rename`); the model keeps the callee's names — the tie
                      compares up to alpha (`alphaEqBlocks'`).
  * `inlineOk`        the decidable side conditions of the soundness theorem
                      (Props/C01Calls `inline_suffix_sound`): `inlineWf` (C05) and no name the inlined
                      block defines at its top level (allocations, windows: they stay in scope for the
                      rest of the caller's block, where the call's scope had ended) is mentioned by
                      the rest `r`.
  * `extractBlock`    `blk ++ r  ↦  sub(args) :: r` for a given callee `sub`, actuals `args` and block
                      length `n` — `DoExtractSubproc` (l.2850-2921) builds `sub` from the block: formals
                      = the symbols of the enclosing environment the block reads or writes (plus the
                      symbols of the shapes of the buffers among them), IN THE ORDER OF THE ENVIRONMENT
                      (`extract_env(block[0])[::-1]`: procedure arguments first, then enclosing
                      binders outside-in), SAME `Sym`s as formals and as actuals (`Read(sym)`), body =
                      the block itself, assertions = (if `include_asserts`) the procedure's assertions
                      and the path conditions (`lo <= i`, `i < hi` of enclosing loops, `cond == True/
                      False` of every `if` met walking backwards through `move_back`) whose symbols are
                      all formals.  The Lean syntax carries no types, so the environment cannot be
                      recomputed; `sub` and `args` are read off the output (translation validation).
  * `extractOk`       decidable side conditions of `extract_sound`: the block is an instance of
                      `sub`'s body under `args` (`checkReplace`, the validator of C05), no actual is a
                      window, the block defines no name at its top level.
-/
import ExoModel.Rewrite
import ExoModel.Inline
import ExoModel.ReplaceCheck
import ExoModel.RwCheckStorage

namespace Exo.Rw
open Exo Exo.Inline

/-- names a block defines at its top level: they stay in scope until the enclosing block ends -/
def defsOf : List Stmt → List Sym
  | [] => []
  | .alloc x _ :: r => x :: defsOf r
  | .window x _ :: r => x :: defsOf r
  | _ :: r => defsOf r

/-- `DoInline` -/
def inlineCall : Local
  | .call f args :: r => (inline f args).map (· ++ r)
  | _ => none

/-- side conditions of the soundness theorem for `inlineCall` -/
def inlineOk : List Stmt → Bool
  | .call f args :: r =>
    inlineWf f args &&
    (match inline f args with
     | some B => (defsOf B).all (fun x => !mentionsL x r)
     | none => false)
  | _ => false

/-- `inlineCall` where the theorem applies -/
def inlineCallChecked : Local := fun ss => if inlineOk ss then inlineCall ss else none

/-- `DoExtractSubproc` with the callee and the actuals given -/
def extractBlock (sub : Proc) (args : List Expr) (n : Nat) : Local := fun ss =>
  if 0 < n ∧ n ≤ ss.length then some (.call sub args :: ss.drop n) else none

def noWinArgs (f : Proc) (args : List Expr) : Bool :=
  match mkSubst f.args args [] with
  | some θ => !hasWin θ
  | none => false

/-- side conditions of the soundness theorem for `extractBlock` -/
def extractOk (sub : Proc) (args : List Expr) (n : Nat) (ss : List Stmt) : Bool :=
  checkReplace (ss.take n) sub args && noWinArgs sub args && (defsOf (ss.take n)).isEmpty

/-- weaker side condition: the block may define names at its top level (they move into `sub`) if the
    rest of the enclosing block does not mention them (`extract_defs_in_context`) -/
def extractOkDefs (sub : Proc) (args : List Expr) (n : Nat) (ss : List Stmt) : Bool :=
  checkReplace (ss.take n) sub args && noWinArgs sub args &&
    (defsOf (ss.take n)).all (fun x => !mentionsL x (ss.drop n))

def extractBlockChecked (sub : Proc) (args : List Expr) (n : Nat) : Local := fun ss =>
  if extractOk sub args n ss then extractBlock sub args n ss else none

end Exo.Rw
