/-
  ExoModel.SimplifyWire — JSON wire format and request handler of the C12 line driver (kept in a library
  module so that `lean --run Drivers/C12.lean` does not re-elaborate it on every start).
  Protocol: see Drivers/C12.lean.
-/
import Lean.Data.Json
import ExoModel.Simplify
import ExoModel.SimplifyOracle

open Lean Exo.Simplify
open Exo (Sym)

namespace Exo.Simplify.Wire

def opOfStr : String → Option Op
  | "+" => some .add | "-" => some .sub | "*" => some .mul | "/" => some .div | "%" => some .mod
  | "and" => some .and | "or" => some .or | "<" => some .lt | ">" => some .gt
  | "<=" => some .le | ">=" => some .ge | "==" => some .eq
  | _ => none

def jInt (j : Json) : Except String Int :=
  match j.getInt? with
  | .ok v => .ok v
  | .error e => .error e

def jNat (j : Json) : Except String Nat := do
  let v ← jInt j
  if v < 0 then throw "negative id" else pure v.toNat

partial def decE (j : Json) : Except String Expr := do
  let a ← j.getArr?
  let tag ← (a[0]?.getD Json.null).getStr?
  match tag with
  | "v" => pure (.var ⟨← (a[1]?.getD Json.null).getStr?, ← jNat (a[2]?.getD Json.null)⟩)
  | "c" => pure (.const (← jInt (a[1]?.getD Json.null)))
  | "b" => pure (.bconst (← (a[1]?.getD Json.null).getBool?))
  | "u" => pure (.usub (← decE (a[1]?.getD Json.null)))
  | "o" =>
    let s ← (a[1]?.getD Json.null).getStr?
    match opOfStr s with
    | some op => pure (.bin op (← decE (a[2]?.getD Json.null)) (← decE (a[3]?.getD Json.null)))
    | none => throw s!"bad op {s}"
  | "g" => pure (.cfg (← (a[1]?.getD Json.null).getStr?) (← (a[2]?.getD Json.null).getStr?))
  | t => throw s!"bad expr tag {t}"

def decEs (j : Json) : Except String (List Expr) := do
  let a ← j.getArr?
  a.toList.mapM decE

mutual
partial def decS (j : Json) : Except String Stmt := do
  let a ← j.getArr?
  let tag ← (a[0]?.getD Json.null).getStr?
  match tag with
  | "obs" => pure (.obs (← decEs (a[1]?.getD Json.null)))
  | "w" => pure (.wcfg (← (a[1]?.getD Json.null).getStr?) (← (a[2]?.getD Json.null).getStr?) (← decE (a[3]?.getD Json.null)))
  | "if" => pure (.ite (← decE (a[1]?.getD Json.null)) (← decB (a[2]?.getD Json.null)) (← decB (a[3]?.getD Json.null)))
  | "for" =>
    pure (.loop ⟨← (a[1]?.getD Json.null).getStr?, ← jNat (a[2]?.getD Json.null)⟩
      (← decE (a[3]?.getD Json.null)) (← decE (a[4]?.getD Json.null)) (← decB (a[5]?.getD Json.null)))
  | "pass" => pure .pass
  | t => throw s!"bad stmt tag {t}"
partial def decB (j : Json) : Except String Block := do
  let a ← j.getArr?
  let ss ← a.toList.mapM decS
  pure (ss.foldr Block.cons .nil)
end

def encE : Expr → Json
  | .var s => Json.arr #["v", s.name, (s.id : Nat)]
  | .const v => Json.arr #["c", Json.num (JsonNumber.fromInt v)]
  | .bconst b => Json.arr #["b", b]
  | .usub e => Json.arr #["u", encE e]
  | .bin op l r => Json.arr #["o", op.str, encE l, encE r]
  | .cfg c f => Json.arr #["g", c, f]

mutual
partial def encS : Stmt → Json
  | .obs es => Json.arr #["obs", Json.arr (es.map encE).toArray]
  | .wcfg c f e => Json.arr #["w", c, f, encE e]
  | .ite c t e => Json.arr #["if", encE c, encB t, encB e]
  | .loop i lo hi b => Json.arr #["for", i.name, (i.id : Nat), encE lo, encE hi, encB b]
  | .pass => Json.arr #["pass"]
partial def encB (b : Block) : Json := Json.arr (blockList b).toArray
partial def blockList : Block → List Json
  | .nil => []
  | .cons s b => encS s :: blockList b
end

def decSym (j : Json) : Except String Sym := do
  let a ← j.getArr?
  pure ⟨← (a[0]?.getD Json.null).getStr?, ← jNat (a[1]?.getD Json.null)⟩

def noEq : Expr → Expr → Bool := fun _ _ => false

def optInt (j : Json) : Option Int := match j.getInt? with | .ok v => some v | _ => none

def handle (j : Json) : Except String Json := do
  let op ← (← j.getObjVal? "op").getStr?
  match op with
  | "simplify" =>
    let sizes ← (← (← j.getObjVal? "sizes").getArr?).toList.mapM decSym
    let preds ← decEs (← j.getObjVal? "preds")
    let body ← decB (← j.getObjVal? "body")
    let O := rangeOracleS sizes
    match simplifyB O noEq body, simplifyPreds (O []) noEq preds with
    | some b, some ps =>
      -- (`map_proc` drops predicates that became `True`, but its result is discarded: `result()` uses `self.ir`)
      pure (Json.mkObj [("ok", true), ("body", encB b), ("preds", Json.arr (ps.map encE).toArray)])
    | _, _ => pure (Json.mkObj [("ok", false), ("err", "model-none")])
  | "expr" =>
    let sizes ← (← (← j.getObjVal? "sizes").getArr?).toList.mapM decSym
    let scj ← (← j.getObjVal? "scope").getArr?
    -- outermost loop first in the request; `Scope` wants innermost first; bounds get normalised as in map_s
    let mut sc : Scope := []
    for l in scj.toList do
      let a ← l.getArr?
      let i : Sym := ⟨← (a[0]?.getD Json.null).getStr?, ← jNat (a[1]?.getD Json.null)⟩
      let lo ← decE (a[2]?.getD Json.null)
      let hi ← decE (a[3]?.getD Json.null)
      let O := rangeOracleS sizes sc
      match normE O lo, normE O hi with
      | some lo', some hi' => sc := (i, lo', hi') :: sc
      | _, _ => throw "scope bound not normalisable"
    let conds ← decEs (← j.getObjVal? "facts")
    let e ← decE (← j.getObjVal? "e")
    let O := rangeOracleS sizes sc
    -- guards, outermost first: each is normalised and simplified under the facts so far, then added
    let mut F : Facts := []
    for c in conds do
      match simplifyE O noEq F c with
      | some c' => F := addFact c' F
      | none => throw "guard not simplifiable"
    match simplifyE O noEq F e with
    | some e' => pure (Json.mkObj [("ok", true), ("e", encE e'), ("str", keyStr e')])
    | none => pure (Json.mkObj [("ok", false), ("err", "model-none")])
  | "trace" =>
    let body ← decB (← j.getObjVal? "body")
    let syms ← (← j.getObjVal? "syms").getArr?
    let mut r : Sym → Int := fun _ => 0
    for s in syms.toList do
      let a ← s.getArr?
      let y : Sym := ⟨← (a[0]?.getD Json.null).getStr?, ← jNat (a[1]?.getD Json.null)⟩
      r := setSym r y (← jInt (a[2]?.getD Json.null))
    let cfgs ← (← j.getObjVal? "cfg").getArr?
    let mut σ : CfgSt := fun _ _ => 0
    let mut fields : List (String × String) := []
    for s in cfgs.toList do
      let a ← s.getArr?
      let c ← (a[0]?.getD Json.null).getStr?
      let f ← (a[1]?.getD Json.null).getStr?
      σ := setCfg σ c f (← jInt (a[2]?.getD Json.null))
      fields := fields ++ [(c, f)]
    let p := execB body r σ
    let tr := Json.arr (p.1.map (fun t => Json.arr (t.map (fun v => Json.num (JsonNumber.fromInt v))).toArray)).toArray
    let cf := Json.arr (fields.map (fun cf => Json.arr #[cf.1, cf.2, Json.num (JsonNumber.fromInt (p.2 cf.1 cf.2))])).toArray
    pure (Json.mkObj [("ok", true), ("trace", tr), ("cfg", cf)])
  | "box" =>
    let a ← decE (← j.getObjVal? "a")
    let b ← decE (← j.getObjVal? "b")
    let vars ← (← j.getObjVal? "vars").getArr?
    let mut vs : List (Sym × Int × Int) := []
    for s in vars.toList do
      let x ← s.getArr?
      vs := vs ++ [(⟨← (x[0]?.getD Json.null).getStr?, ← jNat (x[1]?.getD Json.null)⟩,
                    ← jInt (x[2]?.getD Json.null), ← jInt (x[3]?.getD Json.null))]
    -- all valuations of the box, first differing one
    let rec go (vs : List (Sym × Int × Int)) (r : Sym → Int) (acc : List (Sym × Int)) : Option (List (Sym × Int)) :=
      match vs with
      | [] => if eval ⟨r, fun _ _ => 0⟩ a = eval ⟨r, fun _ _ => 0⟩ b then none else some acc
      | (s, lo, hi) :: rest =>
        (List.range (hi - lo).toNat).firstM (fun (k : Nat) => go rest (setSym r s (lo + (k : Int))) (acc ++ [(s, lo + (k : Int))]))
    match go vs (fun _ => 0) [] with
    | none => pure (Json.mkObj [("ok", true), ("diff", Json.null)])
    | some w =>
      pure (Json.mkObj [("ok", true),
        ("diff", Json.arr (w.map (fun p => Json.arr #[p.1.name, (p.1.id : Nat), Json.num (JsonNumber.fromInt p.2)])).toArray)])
  | "str" =>
    let e ← decE (← j.getObjVal? "e")
    pure (Json.mkObj [("ok", true), ("str", keyStr e)])
  | "bound" =>
    let envj ← (← j.getObjVal? "env").getArr?
    let mut env : REnv := []
    for s in envj.toList do
      let a ← s.getArr?
      env := env ++ [(⟨← (a[0]?.getD Json.null).getStr?, ← jNat (a[1]?.getD Json.null)⟩,
                      (optInt (a[2]?.getD Json.null), optInt (a[3]?.getD Json.null)))]
    let e ← decE (← j.getObjVal? "e")
    let cmp ← (← j.getObjVal? "cmp").getStr?
    let c ← jInt (← j.getObjVal? "c")
    let ans := rangeOracle env e (if cmp == "lt" then .lt else .ge) c
    pure (Json.mkObj [("ok", true), ("ans", ans)])
  | o => throw s!"unknown op {o}"

partial def loop (hin hout : IO.FS.Stream) : IO Unit := do
  let line ← hin.getLine
  if line.isEmpty then return
  let l := line.trimAscii.toString
  if l.isEmpty then
    loop hin hout
  else
    let ans :=
      match Json.parse l with
      | .error e => Json.mkObj [("ok", false), ("err", s!"parse: {e}")]
      | .ok j =>
        match handle j with
        | .ok r => r
        | .error e => Json.mkObj [("ok", false), ("err", s!"request: {e}")]
    hout.putStrLn ans.compress
    hout.flush
    loop hin hout


end Exo.Simplify.Wire
