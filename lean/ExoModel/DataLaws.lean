/-
  ExoModel.DataLaws — the algebraic laws "up to real-number algebra" refers to: data values form
  a commutative ring under the operations of `DataAlg` (nothing is assumed about `div`).
-/
import ExoModel.Sem

namespace Exo

class DataLaws (V : Type) [DataAlg V] : Prop where
  add_comm : ∀ a b : V, DataAlg.add a b = DataAlg.add b a
  add_assoc : ∀ a b c : V, DataAlg.add (DataAlg.add a b) c = DataAlg.add a (DataAlg.add b c)
  mul_comm : ∀ a b : V, DataAlg.mul a b = DataAlg.mul b a
  mul_assoc : ∀ a b c : V, DataAlg.mul (DataAlg.mul a b) c = DataAlg.mul a (DataAlg.mul b c)
  mul_add : ∀ a b c : V, DataAlg.mul a (DataAlg.add b c) = DataAlg.add (DataAlg.mul a b) (DataAlg.mul a c)

instance : DataAlg Int where
  ofRat n d := n / (d : Int)
  add := (· + ·)
  sub := (· - ·)
  mul := (· * ·)
  div := (· / ·)
  neg := (- ·)

instance : DataLaws Int where
  add_comm := Int.add_comm
  add_assoc := Int.add_assoc
  mul_comm := Int.mul_comm
  mul_assoc := Int.mul_assoc
  mul_add := Int.mul_add

end Exo
