import ExoModel.Analyses
open Exo.Analyses Exo.Gen.Tables15

def dF : Decl := ⟨.f32, .DRAM, .dense 1⟩
example : lookup [("x", dF)] "x" = some dF := by decide
example : ("abc" < "abd") = true := by decide
example : lookup [("y", dF), ("x", dF)] "x" = some dF := by decide +kernel

def sub : Proc := ⟨"sub", [⟨"n", .ctrl⟩, ⟨"a", .data ⟨.f32, .DRAM, .win 1⟩⟩, ⟨"b", .data ⟨.f32, .DRAM, .dense 1⟩⟩],
  .cons (.for_ (.cons (.assign "b" (.read "a" .scalar)) .nil)) .nil, false⟩
def subC : Callee := ⟨sub.name, sub.params, procWrites sub, false⟩
def main1 : Proc := ⟨"main", [⟨"n", .ctrl⟩, ⟨"x", .data ⟨.R, .DRAM_STACK, .dense 1⟩⟩, ⟨"y", .data ⟨.f32, .DRAM, .dense 1⟩⟩],
  .cons (.alloc "t" ⟨.R, .DRAM, .dense 1⟩ .c8)
   (.cons (.for_ (.cons (.assign "t" (.binop (.read "x" .scalar) (.const .R))) .nil))
   (.cons (.call subC (.cons .ctrl (.cons (.read "x" (.dense 1)) (.cons (.read "y" (.dense 1)) .nil)))) .nil)), false⟩
example : analyses [main1, sub] = .ok := by decide
example : analyses [main1, sub] = .ok := by decide +kernel
