import ExoModel.Syntax
namespace Exo
deriving instance DecidableEq for Expr
#check (inferInstance : DecidableEq Expr)
#check (inferInstance : DecidableEq WAcc)
