import ExoModel.AuditCmd
import ExoModel.Props.C05
#audit_module ExoModel.Props.C05
