import ExoModel.Inline
import ExoModel.Equiv
namespace Exo.Inline
open Exo
variable {V : Type}
theorem ineqDiff_sound (σ : State V) (o : BinOp) (a b d : Expr) (h : ineqDiff o a b = some d) :
    ExEq (evalC σ (.binop o a b)) (evalC σ d >>= fun v => pure (b2i (0 < v))) := by
  cases o <;> simp [ineqDiff] at h <;> subst h <;>
    cases ha : evalC σ a <;> cases hb : evalC σ b <;>
    simp [evalC, ctrlOp, bind, Except.bind, pure, Except.pure, ha, hb, ExEq, Except.toOption, b2i]
  all_goals trace_state
  all_goals (split <;> split <;> first | rfl | omega)

theorem eqDiff_sound (σ : State V) (a b : Expr) :
    ExEq (evalC σ (.binop .eq a b)) (evalC σ (.binop .sub b a) >>= fun v => pure (b2i (0 = v))) := by
  cases ha : evalC σ a <;> cases hb : evalC σ b <;>
    simp [evalC, ctrlOp, bind, Except.bind, pure, Except.pure, ha, hb, ExEq, Except.toOption, b2i]
  all_goals trace_state
  all_goals (split <;> split <;> first | rfl | omega)
end Exo.Inline
