import ExoModel.ReplaceCheck
namespace Exo.Inline
open Exo

mutual
/-- every name the statement binds is, at its binding site, not mentioned by anything in scope
    (actuals of the call, enclosing binders); the result is the scope for the next statement -/
def bindersFreshS (θ : Subst) : Stmt → Option Subst
  | .ite _ t e => if bindersFreshL θ t && bindersFreshL θ e then some θ else none
  | .loop i _ _ body _ =>
      if fresh i θ && bindersFreshL ((i, .ctrl (.read i [])) :: θ) body then some θ else none
  | .alloc x _ => if fresh x θ then some ((x, .buf x none) :: θ) else none
  | .window x _ => if fresh x θ then some ((x, .buf x none) :: θ) else none
  | _ => some θ
def bindersFreshL (θ : Subst) : List Stmt → Bool
  | [] => true
  | s :: r => match bindersFreshS θ s with
      | some θ' => bindersFreshL θ' r
      | none => false
end

/-- explicit well-formedness of an inlining: formals pairwise distinct and not mentioned by the
    actuals, no actual reads the configuration, the body is in the fragment `inline` covers, and
    every name bound in the body is fresh where it is bound -/
def inlineWfX (f : Proc) (args : List Expr) : Bool :=
  distinctSyms (formalNames f.args) && formalsFresh (formalNames f.args) args &&
  (match inlineBind f.args args [] [] with
   | some (θ, _) => pureSubst θ && !hasWin θ && (substL θ f.body).isSome && bindersFreshL θ f.body
   | none => false)
end Exo.Inline
