import ExoModel.Inline
import ExoModel.Equiv
namespace Exo.Inline
open Exo
def Sim (W : Prop) {α β : Type} (R : α → β → Prop) (rc : Except Err α) (r : Except Err β) : Prop :=
  (∀ a, rc = .ok a → ∃ b, r = .ok b ∧ R a b) ∧
  (∀ b, r = .ok b → (∃ a, rc = .ok a ∧ R a b) ∨ (W ∧ rc = .error .oob))

variable {W : Prop} {α β γ δ : Type}

theorem Sim.bind {R : α → β → Prop} {R' : γ → δ → Prop} {rc : Except Err α} {r : Except Err β}
    {f : α → Except Err γ} {g : β → Except Err δ}
    (h : Sim W R rc r) (hf : ∀ a b, R a b → Sim W R' (f a) (g b)) :
    Sim W R' (rc >>= f) (r >>= g) := by
  constructor
  · intro c hc
    cases rc with
    | error e => 
      first | (cases hc; done) | (simp only [bind, Except.bind] at hc; trace "B") | (simp [Bind.bind, Except.bind] at hc; trace "C")
    | ok a => sorry
  · sorry
