#check @Int.fdiv_eq_ediv_of_nonneg
#check @Int.fmod_eq_emod_of_nonneg
#check @Int.ediv_le_ediv
#check @Int.add_mul_ediv_left
#check @Int.ediv_lt_of_lt_mul
#check @Int.emod_def
#check @Int.tdiv_eq_ediv_of_nonneg
#check @Int.ediv_nonneg
#check @Int.emod_nonneg
#check @Int.emod_lt_of_pos
#check @Int.ediv_add_emod
#eval (7 : Int) / (-2)
#eval Int.fdiv 7 (-2)
#eval Int.fmod 7 (-3)
#eval (-7 : Int) % 3
#eval Int.fdiv 7 0
#eval Int.fmod 7 0
