import ExoModel.AuditCmd
import ExoModel.Props.C09
#audit_module ExoModel.Props.C09
