import ExoModel.Lemmas.Par
namespace Exo.Par
section
variable {C V : Type} [DecidableEq C] [Add V]

theorem stepAt_append (pre ts : List (Thread C V)) (m : Mem C V) (k : Nat) :
    stepAt m (pre ++ ts) (pre.length + k) = ((stepAt m ts k).1, pre ++ (stepAt m ts k).2) := by
  induction pre with
  | nil => simp
  | cons p pre ih =>
    have : (p :: pre).length + k = (pre.length + k) + 1 := by simp; omega
    rw [this, List.cons_append, stepAt, ih]; rfl

theorem run_append (a b : List Nat) (ts : List (Thread C V)) (m : Mem C V) :
    run m ts (a ++ b) = run (run m ts a).1 (run m ts a).2 b := by
  induction a generalizing ts m with
  | nil => rfl
  | cons k ks ih => simp only [List.cons_append, run, ih]

theorem run_replicate (pre ts : List (Thread C V)) (evs : List (Event C V)) (l : List V)
    (m : Mem C V) :
    ∃ l', run m (pre ++ ⟨l, evs⟩ :: ts) (List.replicate evs.length pre.length) =
      (solo m l evs, pre ++ ⟨l', []⟩ :: ts) := by
  induction evs generalizing m l with
  | nil => exact ⟨l, rfl⟩
  | cons e r ih =>
    obtain ⟨l', h⟩ := ih (stepEv m l e).2 (stepEv m l e).1
    refine ⟨l', ?_⟩
    have hs : stepAt m (pre ++ ⟨l, e :: r⟩ :: ts) pre.length =
        ((stepEv m l e).1, pre ++ ⟨(stepEv m l e).2, r⟩ :: ts) := by
      have := stepAt_append pre (⟨l, e :: r⟩ :: ts) m 0
      simpa [stepAt] using this
    simp only [List.length_cons, List.replicate_succ, run, hs, h, solo]

theorem run_seqScheduleFrom (ts pre : List (Thread C V)) (m : Mem C V) (hpre : AllDone pre) :
    ∃ ts', run m (pre ++ ts) (seqScheduleFrom pre.length ts) = (seqRun m ts, ts') ∧ AllDone ts' := by
  induction ts generalizing pre m with
  | nil => exact ⟨pre, by simp [seqScheduleFrom, run, seqRun], hpre⟩
  | cons t ts ih =>
    rcases t with ⟨l, evs⟩
    obtain ⟨l', h1⟩ := run_replicate pre ts evs l m
    have hpre' : AllDone (pre ++ [⟨l', []⟩]) := by
      intro u hu
      rcases List.mem_append.mp hu with hu | hu
      · exact hpre u hu
      · simp at hu; subst hu; rfl
    obtain ⟨ts', h2, h3⟩ := ih (pre ++ [⟨l', []⟩]) (solo m l evs) hpre'
    refine ⟨ts', ?_, h3⟩
    simp only [seqScheduleFrom, run_append, h1, seqRun]
    simpa using h2

end

mutual
theorem reachS_trans : ∀ (s : S) (q : P), q ∈ reachS s → ∀ r, r ∈ reachP q → r ∈ reachS s
  | .leaf, q, h => by simp [reachS] at h
  | .loop _ body, q, h => by
      simp only [reachS] at h ⊢
      exact reachL_trans body q h
  | .ite b e, q, h => by
      simp only [reachS, List.mem_append] at h ⊢
      intro r hr
      rcases h with h | h
      · exact Or.inl (reachL_trans b q h r hr)
      · exact Or.inr (reachL_trans e q h r hr)
  | .call f, q, h => by
      simp only [reachS] at h ⊢
      exact reachP_trans f q h
theorem reachL_trans : ∀ (ss : List S) (q : P), q ∈ reachL ss → ∀ r, r ∈ reachP q → r ∈ reachL ss
  | [], q, h => by simp [reachL] at h
  | s :: rest, q, h => by
      simp only [reachL, List.mem_append] at h ⊢
      intro r hr
      rcases h with h | h
      · exact Or.inl (reachS_trans s q h r hr)
      · exact Or.inr (reachL_trans rest q h r hr)
theorem reachP_trans : ∀ (p q : P), q ∈ reachP p → ∀ r, r ∈ reachP q → r ∈ reachP p
  | .mk n i body, q, h => by
      intro r hr
      simp only [reachP, List.mem_cons] at h
      rcases h with h | h
      · subst h; exact hr
      · cases i with
        | true => simp at h
        | false =>
          simp only [reachP, List.mem_cons]
          right
          simp only [Bool.false_eq_true, if_false] at h ⊢
          exact reachL_trans body q h r hr
end

mutual
theorem calleesS_reach : ∀ (s : S) (f : P), f ∈ calleesS s → f ∈ reachS s
  | .leaf, f, h => by simp [calleesS] at h
  | .loop _ body, f, h => by simp only [calleesS, reachS] at h ⊢; exact calleesL_reach body f h
  | .ite b e, f, h => by
      simp only [calleesS, reachS, List.mem_append] at h ⊢
      rcases h with h | h
      · exact Or.inl (calleesL_reach b f h)
      · exact Or.inr (calleesL_reach e f h)
  | .call g, f, h => by
      simp only [calleesS, List.mem_singleton] at h
      subst h
      simp only [reachS]
      exact reachP_self f
theorem calleesL_reach : ∀ (ss : List S) (f : P), f ∈ calleesL ss → f ∈ reachL ss
  | [], f, h => by simp [calleesL] at h
  | s :: rest, f, h => by
      simp only [calleesL, reachL, List.mem_append] at h ⊢
      rcases h with h | h
      · exact Or.inl (calleesS_reach s f h)
      · exact Or.inr (calleesL_reach rest f h)
end

end Exo.Par
