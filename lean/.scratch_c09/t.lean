import ExoModel.Par
namespace Exo.Par
variable {V : Type}
theorem fpOf_w' (evs : List (Event Nat V)) (c : Nat) : c ∈ (fpOf evs).w ↔ c ∈ wr evs := by
  induction evs with
  | nil => simp [fpOf, FP.w, wr]
  | cons e r ih =>
    cases e <;> simp only [fpOf, FP.w, wr, List.mem_append, List.mem_cons] at ih ⊢ <;> grind

theorem fpOf_all' (evs : List (Event Nat V)) (c : Nat) : c ∈ (fpOf evs).all ↔ c ∈ acc evs := by
  induction evs with
  | nil => simp [fpOf, FP.all, acc]
  | cons e r ih =>
    cases e <;> simp only [fpOf, FP.all, acc, Event.cell, List.mem_append, List.mem_cons, List.map_cons] at ih ⊢ <;> grind
end Exo.Par
